(* C08 - concurrent requests lose no update and process a duplicate once.
   Conc/Model.v: threads of critical sections (put an id at the front of one collection, unconditionally or only when
   absent - in which case a thread finding it present stops) interleaved at the granularity lock / read / write / unlock,
   with the application's mutual exclusion per id.  That every collection update of package pub IS such a section is what
   C09 (every Database access inside the lock of its id), C05 / C04 / C16 / C17 (the value written is the value read with
   the id at the front; membership / seen-before test and write under one hold) establish for the model programs. *)
From Coq Require Import String List Bool Arith Permutation.
From Verif Require Import Base.Json Base.Free Pub.Events Pub.Calls Pub.Value Pub.Util Pub.SideEffect Pub.Fed Proofs.OrderProofs Proofs.ForwardIffProofs Proofs.SectionProofs.
From Verif Require Import Base.ListX Conc.Model Conc.Proofs.
Import ListNotations.
Open Scope string_scope.
Open Scope list_scope.

(* every interleaving is serialisable: whatever the schedule, each collection holds what the committed sections, applied
   one after another in commit order, make of its initial content *)
Theorem C08_serialisable : forall init progs g c, reach (initial init progs) g -> g_store g c = replay c (g_log g) (init c).
Proof. exact serialisable. Qed.

(* no lost update: for front-insertions the content does not depend on the order in which the sections committed -
   so it is what the same requests executed one after another put there *)
Theorem C08_no_lost_update : forall c log log' l, forallb (fun s => negb (s_cond s)) (on c log) = true -> Permutation log log' ->
  Permutation (replay c log l) (replay c log' l).
Proof. exact order_irrelevant. Qed.
Theorem C08_contents : forall c log l, forallb (fun s => negb (s_cond s)) (on c log) = true ->
  Permutation (replay c log l) (map s_id (on c log) ++ l).
Proof. exact replay_unconditional. Qed.

(* a duplicate is processed once: conditional insertion never lists an id twice, and lists every id asked for *)
Theorem C08_duplicate_once : forall c log l, NoDup l -> forallb s_cond (on c log) = true -> NoDup (replay c log l).
Proof. exact conditional_once. Qed.
Theorem C08_duplicate_present : forall c log l s, In s (on c log) -> In (s_id s) (replay c log l).
Proof. exact conditional_present. Qed.

(* no deadlock: at every reachable state with an unfinished thread some step is possible (a thread holds one lock at a time) *)
Theorem C08_no_deadlock : forall init progs g, reach (initial init progs) g -> existsb unfinishedb (g_threads g) = true -> exists g', step g g'.
Proof. exact progress. Qed.

(* ---- the bridge to package pub (Proofs/SectionProofs.v): each collection update of the sequential model IS one critical
   section of the Conc model, for EVERY environment - bracketed by Lock / Unlock of one id, Database calls only in between,
   the reads first and at most one write, last; and the value written is Conc's `write` of the value read under that hold.
   page_ids: the ids a stored page lists.  The Database contract used: InboxContains answers whether the id is on the page. ---- *)
Theorem C08_inbox_update_is_a_section : forall env inbox a,
  is_section inbox inbox_reads inbox_writes (ans_ok (env (ELock inbox))) (evs_env env (add_to_inbox_if_new inbox a)).
Proof. exact inbox_section. Qed.
Theorem C08_inbox_section_refines : forall env inbox a page m,
  let id := id_str a in
  let sec := {| s_col := inbox; s_id := id; s_cond := true |} in
  let e1 := EDb "InboxContains" [JStr inbox; JStr id] in
  let e2 := EDb "GetInbox" [JStr inbox] in
  env (ELock inbox) = AOk ->
  env e2 = AJson page -> page = JObj m -> all_iris (listing page) ->
  env e1 = ABool (mem id (page_ids page)) ->
  if stops sec (page_ids page)
  then evs_env env (add_to_inbox_if_new inbox a) = [ELock inbox; e1; EUnlock inbox] /\
       res_env env (add_to_inbox_if_new inbox a) = Ok false /\
       write sec (page_ids page) = page_ids page
  else exists w, evs_env env (add_to_inbox_if_new inbox a) = [ELock inbox; e1; e2; EDb "SetInbox" [w]; EUnlock inbox] /\
       page_ids w = write sec (page_ids page) /\
       res_env env (add_to_inbox_if_new inbox a) = (if ans_ok (env (EDb "SetInbox" [w])) then Ok true else Err EGeneric).
Proof. exact inbox_is_model_section. Qed.
Theorem C08_outbox_section_refines : forall env outbox a page m,
  let id := id_str a in
  let sec := {| s_col := outbox; s_id := id; s_cond := false |} in
  let c := EDb "Create" [canon a] in
  let e1 := EDb "GetOutbox" [JStr outbox] in
  env (ELock id) = AOk -> env c = AOk -> env (ELock outbox) = AOk ->
  env e1 = AJson page -> page = JObj m -> all_iris (listing page) ->
  stops sec (page_ids page) = false /\
  exists w, evs_env env (add_to_outbox outbox a) = [ELock id; c; EUnlock id; ELock outbox; e1; EDb "SetOutbox" [w]; EUnlock outbox] /\
    page_ids w = write sec (page_ids page) /\
    res_env env (add_to_outbox outbox a) = (if ans_ok (env (EDb "SetOutbox" [w])) then Ok tt else Err EGeneric).
Proof. exact outbox_is_model_section. Qed.
(* likes / shares, Add / Remove targets, followers, following: sections on the object / target / actor id whose single write is
   a pure function of the value read under the same hold (the functions are those of C04 / C16) *)
Theorem C08_like_update_is_a_section : forall env cp id e,
  match to_id "object" e with
  | Ok obj_id =>
      is_section obj_id upd_reads upd_writes (ans_ok (env (ELock obj_id))) (evs_env env (like_loop cp id e)) /\
      forall w, In w (evs_env env (like_loop cp id e)) -> upd_writes w = true ->
        env (ELock obj_id) = AOk /\ env (EDb "Owns" [JStr obj_id]) = ABool true /\
        exists t t', env (EDb "Get" [JStr obj_id]) = AJson t /\ prepend_on cp id t = Ok t' /\ w = EDb "Update" [canon t']
  | _ => evs_env env (like_loop cp id e) = []
  end.
Proof. exact like_loop_section. Qed.
(* every one of these programs holds one lock at a time - the hypothesis of C08_no_deadlock - for every environment; so does
   the client-side Like, whose wrapped application callback runs while the actor's lock is still held (soc_like_hold) *)
Theorem C08_sites_hold_one_lock_at_a_time : forall env,
  (forall inbox a, one_lock_at_a_time env (evs_env env (add_to_inbox_if_new inbox a))) /\
  (forall outbox a, one_lock_at_a_time env (evs_env env (add_to_outbox outbox a))) /\
  (forall cp id e, one_lock_at_a_time env (evs_env env (like_loop cp id e))) /\
  (forall cp id l, one_lock_at_a_time env (evs_env env (foreach l (like_loop cp id)))) /\
  (forall op_ids t, one_lock_at_a_time env (evs_env env (add_loop op_ids t))) /\
  (forall op_ids l, one_lock_at_a_time env (evs_env env (foreach l (add_loop op_ids)))) /\
  (forall op_ids t, one_lock_at_a_time env (evs_env env (remove_loop op_ids t))) /\
  (forall op_ids l, one_lock_at_a_time env (evs_env env (foreach l (remove_loop op_ids)))) /\
  (forall read_op actor f, read_op <> "Update" -> one_lock_at_a_time env (evs_env env (coll_update read_op actor f))) /\
  (forall actor al, one_lock_at_a_time env (evs_env env (following_update actor al))) /\
  (forall cfg actor a, one_lock_at_a_time env (evs_env env (with_lock_deferred actor (soc_like_body cfg actor a)))).
Proof. exact sites_one_lock. Qed.

Print Assumptions C08_serialisable.
Print Assumptions C08_no_lost_update.
Print Assumptions C08_contents.
Print Assumptions C08_duplicate_once.
Print Assumptions C08_duplicate_present.
Print Assumptions C08_no_deadlock.
Print Assumptions C08_inbox_update_is_a_section.
Print Assumptions C08_inbox_section_refines.
Print Assumptions C08_outbox_section_refines.
Print Assumptions C08_like_update_is_a_section.
Print Assumptions C08_sites_hold_one_lock_at_a_time.
