(* C04 - the default inbox side effects do what is documented, only to owned data; an 'other' callback replaces the
   default; a wrapped callback runs after the default effect succeeded. *)
From Coq Require Import String List Bool Arith.
From Verif Require Import Base.ListX Base.Json Base.Free Pub.Events Pub.Calls Pub.Value Pub.EffectSpec Pub.Util Pub.SideEffect Pub.Fed Pub.Monitors.
From Verif Require Import Proofs.OnlyProofs Proofs.OrderProofs Proofs.DeliveryProofs Proofs.ForwardIffProofs Proofs.TargetProofs Proofs.StoreProofs Proofs.FollowProofs Proofs.AcceptProofs Proofs.EffectProofs Proofs.FedProofs.
Import ListNotations.
Open Scope string_scope.
Open Scope list_scope.

(* every default callback is its effect followed, only when the effect succeeded, by the wrapped application callback *)
Theorem C04_factor : forall cfg inbox a,
  create cfg inbox a = effect_then_wrapped cfg "Create" (create_effect inbox a) a /\
  update cfg a = effect_then_wrapped cfg "Update" (update_effect a) a /\
  delete cfg a = effect_then_wrapped cfg "Delete" (delete_effect a) a /\
  add_cb cfg a = effect_then_wrapped cfg "Add" (add_effect a) a /\
  remove_cb cfg a = effect_then_wrapped cfg "Remove" (remove_effect a) a /\
  like cfg a = effect_then_wrapped cfg "Like" (like_effect a) a /\
  announce cfg a = effect_then_wrapped cfg "Announce" (announce_effect a) a /\
  undo cfg inbox a = effect_then_wrapped cfg "Undo" (undo_effect inbox a) a /\
  block cfg a = effect_then_wrapped cfg "Block" (block_effect a) a /\
  reject cfg a = effect_then_wrapped cfg "Reject" (ok tt) a.
Proof.
  intros cfg inbox a.
  split; [apply factor_create|]. split; [apply factor_update|]. split; [apply factor_delete|]. split; [apply factor_add|].
  split; [apply factor_remove|]. split; [apply factor_like|]. split; [apply factor_announce|]. split; [apply factor_undo|].
  split; [apply factor_block|apply factor_reject].
Qed.
Theorem C04_wrapped_after_effect : forall cfg name effect a tr r, runs (effect_then_wrapped cfg name effect a) tr r ->
  exists tr1 tr2 r1, tr = tr1 ++ tr2 /\ runs effect tr1 r1 /\
    match r1 with
    | Ok _ => (tr2 = [] /\ r = Ok tt /\ mem name (c_fed_wrapped cfg) = false) \/
              (exists x, tr2 = [(EApp ("Wrapped:" ++ name) [canon a], x)] /\ mem name (c_fed_wrapped cfg) = true)
    | Err e => tr2 = [] /\ r = Err e
    | Panic p => tr2 = [] /\ r = Panic p
    end.
Proof. exact wrapped_after_effect. Qed.

(* for EVERY environment: Like / Announce update an object only after Owns answered true for it, only to the value with the
   activity id at the front of its likes / shares; Add / Remove likewise for owned targets (C16_add_owned_only) *)
Theorem C04_like_owned_only : forall a id tr r, get_id a = Ok id -> runs (like_effect a) tr r ->
  exists s, run_monitor (own_step "likes" id) e0 tr = Some s.
Proof. intros a id tr r Hi H. destruct (wp_sound ev ans estate _ _ _ _ (own_like_effect a id Hi) tr r H) as [s [E _]]. exists s. exact E. Qed.
Theorem C04_announce_owned_only : forall a id tr r, get_id a = Ok id -> runs (announce_effect a) tr r ->
  exists s, run_monitor (own_step "shares" id) e0 tr = Some s.
Proof. intros a id tr r Hi H. destruct (wp_sound ev ans estate _ _ _ _ (own_announce_effect a id Hi) tr r H) as [s [E _]]. exists s. exact E. Qed.
Theorem C04_add_owned_only : forall a ids tr r, ids_of "object" a = Ok ids -> runs (add a) tr r ->
  exists s, run_monitor (eff_step (KAdd ids)) e0 tr = Some s.
Proof. intros a ids tr r Hi H. destruct (wp_sound ev ans estate _ _ _ _ (eff_add a ids Hi) tr r H) as [s [E _]]. exists s. exact E. Qed.
Theorem C04_remove_owned_only : forall a ids tr r, ids_of "object" a = Ok ids -> runs (remove a) tr r ->
  exists s, run_monitor (eff_step (KRemove ids)) e0 tr = Some s.
Proof. intros a ids tr r Hi H. destruct (wp_sound ev ans estate _ _ _ _ (eff_remove a ids Hi) tr r H) as [s [E _]]. exists s. exact E. Qed.

(* the federated Add / Remove defaults are the same functions as the client ones: against ANY world (which targets are owned, what
   is stored) the Updates issued are exactly those of the owned targets, in the order named - data this server does not own is
   never written, and a target not owned changes nothing for the owned ones after it *)
Theorem C04_add_every_owned_target : forall owns stored env,
  (forall i, env (ELock i) = AOk) -> (forall i, env (EDb "Owns" [JStr i]) = ABool (owns i)) ->
  (forall i, env (EDb "Get" [JStr i]) = AJson (stored i)) -> (forall x, env (EDb "Update" [x]) = AOk) ->
  forall a ops ts, ids_of "object" a = Ok ops -> ids_of "target" a = Ok ts ->
  fst (run_env env (add a)) = Ok tt ->
  updates (snd (run_env env (add a))) =
    flat_map (fun t => if owns t then match collection_prop (stored t) with
                                      | Ok cp => [EDb "Update" [canon (add_spec cp ops (stored t))]]
                                      | _ => [] end else []) ts.
Proof. intros owns stored env H1 H2 H3 H4 a ops ts Ho Ht Hr. exact (proj1 (add_updates_owned owns stored env H1 H2 H3 H4 a ops ts Ho Ht Hr)). Qed.
Theorem C04_remove_every_owned_target : forall owns stored env,
  (forall i, env (ELock i) = AOk) -> (forall i, env (EDb "Owns" [JStr i]) = ABool (owns i)) ->
  (forall i, env (EDb "Get" [JStr i]) = AJson (stored i)) -> (forall x, env (EDb "Update" [x]) = AOk) ->
  forall a ops ts, ids_of "object" a = Ok ops -> ids_of "target" a = Ok ts ->
  fst (run_env env (remove a)) = Ok tt ->
  updates (snd (run_env env (remove a))) =
    flat_map (fun t => if owns t then match collection_prop (stored t) with
                                      | Ok cp => match remove_spec cp ops (stored t) with Ok tp' => [EDb "Update" [canon tp']] | _ => [] end
                                      | _ => [] end else []) ts.
Proof. intros owns stored env H1 H2 H3 H4 a ops ts. exact (remove_updates_owned owns stored env H1 H2 H3 H4 a ops ts). Qed.

Theorem C04_front : forall cp id t m t', t = JObj m -> prepend_on cp id t = Ok t' ->
  exists col p, (p = "items" \/ p = "orderedItems") /\
    jget cp t' = Some (prepend_iri p id col) /\ (forall k, k <> cp -> jget k t' = jget k t) /\
    (forall cm, col = JObj cm -> elems0 p (prepend_iri p id col) = JStr id :: elems0 p col \/ exists x, elems0 p col = [JArr x]).
Proof. exact prepend_on_front. Qed.

(* followers (auto-accept) and following (verified Accept) gain the actors at the front, nothing else changes *)
Theorem C04_followers : forall ids col m, col = JObj m -> no_arrays (elems0 "items" col) = true ->
  elems0 "items" (like_spec ids col) = map JStr (rev ids) ++ elems0 "items" col /\
  forall k, k <> "items" -> jget k (like_spec ids col) = jget k col.
Proof. exact like_entries. Qed.

(* for EVERY environment: an 'other' callback replaces the default effect entirely *)
Theorem C04_other_replaces : forall cfg inbox a, mem (type_name a) (c_fed_other cfg) = true -> only quiet_inbox (post_inbox cfg inbox a).
Proof. exact other_replaces_default. Qed.

(* for EVERY environment: OnFollow = do nothing changes and sends nothing; OnFollow = reject never updates anything *)
Theorem C04_follow_nothing : forall cfg inbox a, c_on_follow cfg = 0 -> only no_change_no_send (follow cfg inbox a).
Proof. exact follow_do_nothing. Qed.
Theorem C04_follow_reject : forall cfg inbox a, c_on_follow cfg = 2 -> only no_update (follow cfg inbox a).
Proof. exact follow_reject_leaves_followers. Qed.

(* ---- what is stored when a default callback succeeds, for EVERY environment (every answer of every call: env is any
   function from events to answers).  S env m = the Create / Update / Delete / SetInbox / SetOutbox / BatchDeliver events of
   the run of m against env, in order. ---- *)
(* Create stores every object - the embedded value, or what was fetched for an IRI - once, in order, and nothing else *)
Theorem C04_create_stores_every_object : forall env cfg inbox a, res_env env (create cfg inbox a) = Ok tt ->
  exists vals, Forall2 (fun e t => res_env env (value_or_fetch inbox e) = Ok t) (elems0 "object" a) vals /\
               S env (create cfg inbox a) = map (fun t => EDb "Create" [canon t]) vals.
Proof. exact create_stores_every_object. Qed.
Theorem C04_fetched_value : forall env box e t, res_env env (value_or_fetch box e) = Ok t ->
  e_type "object" e = Some t \/
  (e_type "object" e = None /\ e_is_iri e = true /\ exists j, env (EDeref (e_iri e)) = AJson j /\ to_type j = Ok t).
Proof. exact value_or_fetch_spec. Qed.
(* Update stores exactly the named (embedded) objects, Delete removes exactly the named ids *)
Theorem C04_update_stores_exactly_named : forall env cfg a, res_env env (update cfg a) = Ok tt ->
  exists vals, Forall2 (fun e t => e_type "object" e = Some t) (elems0 "object" a) vals /\
               S env (update cfg a) = map (fun t => EDb "Update" [canon t]) vals.
Proof. exact update_stores_exactly_named. Qed.
Theorem C04_delete_removes_exactly_named : forall env cfg a, res_env env (delete cfg a) = Ok tt ->
  exists ids, Forall2 (fun e i => to_id "object" e = Ok i) (elems0 "object" a) ids /\
              S env (delete cfg a) = map (fun i => EDb "Delete" [JStr i]) ids.
Proof. exact delete_removes_exactly_named. Qed.
(* Like / Announce against ANY world (which objects are owned, what is stored for them): whenever they succeed, exactly the
   owned objects were updated, in order, each to prepend_on of what was stored (C04_front says what that is); nothing else
   was stored, created, deleted or sent *)
Theorem C04_like_every_owned_object : forall owns stored env,
  (forall i, env (ELock i) = AOk) -> (forall i, env (EDb "Owns" [JStr i]) = ABool (owns i)) ->
  (forall i, env (EDb "Get" [JStr i]) = AJson (stored i)) -> (forall x, env (EDb "Update" [x]) = AOk) ->
  forall cfg a, res_env env (like cfg a) = Ok tt ->
  exists id objs, get_id a = Ok id /\ to_ids "object" (elems0 "object" a) = Ok objs /\
    S env (like cfg a) = like_updates owns stored "likes" id objs /\
    forall o, In o objs -> owns o = true -> exists t', prepend_on "likes" id (stored o) = Ok t'.
Proof.
  intros owns stored env H1 H2 H3 H4 cfg a H.
  destruct (like_total owns stored env H1 H2 H3 H4 cfg a H) as [id [objs [E1 [E2 [E3 [_ E5]]]]]].
  exists id, objs. repeat split; assumption.
Qed.
Theorem C04_announce_every_owned_object : forall owns stored env,
  (forall i, env (ELock i) = AOk) -> (forall i, env (EDb "Owns" [JStr i]) = ABool (owns i)) ->
  (forall i, env (EDb "Get" [JStr i]) = AJson (stored i)) -> (forall x, env (EDb "Update" [x]) = AOk) ->
  forall cfg a, res_env env (announce cfg a) = Ok tt ->
  exists id objs, get_id a = Ok id /\ to_ids "object" (elems0 "object" a) = Ok objs /\
    S env (announce cfg a) = like_updates owns stored "shares" id objs /\
    forall o, In o objs -> owns o = true -> exists t', prepend_on "shares" id (stored o) = Ok t'.
Proof.
  intros owns stored env H1 H2 H3 H4 cfg a H.
  destruct (announce_total owns stored env H1 H2 H3 H4 cfg a H) as [id [objs [E1 [E2 [E3 [_ E5]]]]]].
  exists id, objs. repeat split; assumption.
Qed.

(* ---- a Follow, for EVERY environment.  Not for this inbox's actor, or the application chose to do nothing: nothing is stored
   and nothing sent, whether or not the callback succeeds.  Auto-accept: exactly the followers collection rewritten with every
   following actor in front (new_followers; C04_followers says what its ids are) and ONE hand-over of an Accept of that Follow
   from the actor, addressed to those actors, under the id NewID gave, stripped of hidden recipients.  Auto-reject: only that
   one hand-over, of a Reject; followers are not touched. ---- *)
Theorem C04_follow_not_me_nothing : forall env cfg inbox a,
  (c_on_follow cfg = 0 \/ exists actor, env (EDb "ActorForInbox" [JStr inbox]) = AIri actor
                                      /\ names_me "object" actor (elems0 "object" a) = Ok false) ->
  S env (follow cfg inbox a) = [].
Proof. exact follow_not_me_nothing_any. Qed.
Theorem C04_follow_accept_effects : forall env cfg inbox a actor,
  c_on_follow cfg = 1 ->
  env (EDb "ActorForInbox" [JStr inbox]) = AIri actor ->
  names_me "object" actor (elems0 "object" a) = Ok true ->
  res_env env (follow cfg inbox a) = Ok tt ->
  exists al recipients followers newid rs,
    elems "actor" a = Some al /\ to_ids "actor" al = Ok recipients
    /\ env (EDb "Followers" [JStr actor]) = AJson followers
    /\ env (EDb "NewID" [canon (response_activity "Accept" actor a recipients)]) = AIri newid
    /\ ids_of "to" (response_activity "Accept" actor a recipients) = Ok recipients
    /\ S env (follow cfg inbox a) =
         [EDb "Update" [canon (new_followers recipients followers)];
          EBatchDeliver (canon (streams_serialize (strip_hidden (jset "id" (JStr newid) (response_activity "Accept" actor a recipients))))) rs].
Proof. exact follow_accept_complete. Qed.
Theorem C04_follow_reject_effects : forall env cfg inbox a actor,
  c_on_follow cfg = 2 ->
  env (EDb "ActorForInbox" [JStr inbox]) = AIri actor ->
  names_me "object" actor (elems0 "object" a) = Ok true ->
  res_env env (follow cfg inbox a) = Ok tt ->
  exists al recipients newid rs,
    elems "actor" a = Some al /\ to_ids "actor" al = Ok recipients
    /\ env (EDb "NewID" [canon (response_activity "Reject" actor a recipients)]) = AIri newid
    /\ ids_of "to" (response_activity "Reject" actor a recipients) = Ok recipients
    /\ S env (follow cfg inbox a) =
         [EBatchDeliver (canon (streams_serialize (strip_hidden (jset "id" (JStr newid) (response_activity "Reject" actor a recipients))))) rs].
Proof. exact follow_reject_complete. Qed.
Theorem C04_response_shape : forall k actor a r,
  jget "type" (response_activity k actor a r) = Some (JStr k) /\
  jget "actor" (response_activity k actor a r) = Some (JStr actor) /\
  jget "object" (response_activity k actor a r) = Some a.
Proof. intros k actor a r. split; [apply response_type|split; [apply response_actor|apply response_object]]. Qed.

(* ---- an Accept, for EVERY environment: without a Follow of this actor among its objects nothing is stored; with one, the
   Accept succeeds only if the STORED Follow is a Follow by this actor naming every accepting actor, and then exactly the
   following collection is rewritten with the accepting actors in front; in every failing verification nothing is stored.
   Undo, Reject and Block store nothing. ---- *)
Theorem C04_accept_no_follow_nothing : forall env cfg inbox a,
  (object_required a = true \/ exists actor, env (EDb "ActorForInbox" [JStr inbox]) = AIri actor /\
                                            res_env env (find_my_follow inbox actor (elems0 "object" a)) = Ok None) ->
  S env (accept cfg inbox a) = [].
Proof. exact accept_no_follow_nothing. Qed.
Theorem C04_accept_verified_effects : forall env cfg inbox a actor follow_id,
  env (EDb "ActorForInbox" [JStr inbox]) = AIri actor ->
  res_env env (find_my_follow inbox actor (elems0 "object" a)) = Ok (Some follow_id) ->
  res_env env (accept cfg inbox a) = Ok tt ->
  exists al t accept_ids follow_objs following,
    elems "actor" a = Some al /\ env (EDb "Get" [JStr follow_id]) = AJson t /\
    follow_verified actor al t accept_ids follow_objs /\
    env (EDb "Following" [JStr actor]) = AJson following /\
    S env (accept cfg inbox a) = [EDb "Update" [canon (set_elems "items" (map JStr (rev accept_ids) ++ elems0 "items" following) following)]].
Proof. exact accept_verified_effects. Qed.
Theorem C04_accept_unverified_nothing : forall env cfg inbox a actor follow_id,
  env (EDb "ActorForInbox" [JStr inbox]) = AIri actor ->
  res_env env (find_my_follow inbox actor (elems0 "object" a)) = Ok (Some follow_id) ->
  ~ (exists al t accept_ids follow_objs, elems "actor" a = Some al /\ env (EDb "Get" [JStr follow_id]) = AJson t /\
                                         follow_verified actor al t accept_ids follow_objs) ->
  (forall u, res_env env (accept cfg inbox a) <> Ok u) /\ S env (accept cfg inbox a) = [].
Proof. exact accept_unverified_nothing. Qed.
Theorem C04_undo_reject_block_store_nothing : forall env cfg inbox a,
  S env (undo cfg inbox a) = [] /\ S env (reject cfg a) = [] /\ S env (Fed.block cfg a) = [].
Proof. intros env cfg inbox a. split; [apply undo_stores_nothing|split; [apply reject_stores_nothing|apply fed_block_stores_nothing]]. Qed.

Print Assumptions C04_factor.
Print Assumptions C04_wrapped_after_effect.
Print Assumptions C04_like_owned_only.
Print Assumptions C04_announce_owned_only.
Print Assumptions C04_add_owned_only.
Print Assumptions C04_remove_owned_only.
Print Assumptions C04_front.
Print Assumptions C04_followers.
Print Assumptions C04_other_replaces.
Print Assumptions C04_follow_nothing.
Print Assumptions C04_follow_reject.
Print Assumptions C04_add_every_owned_target.
Print Assumptions C04_remove_every_owned_target.
Print Assumptions C04_create_stores_every_object.
Print Assumptions C04_fetched_value.
Print Assumptions C04_update_stores_exactly_named.
Print Assumptions C04_delete_removes_exactly_named.
Print Assumptions C04_like_every_owned_object.
Print Assumptions C04_announce_every_owned_object.
Print Assumptions C04_follow_not_me_nothing.
Print Assumptions C04_follow_accept_effects.
Print Assumptions C04_follow_reject_effects.
Print Assumptions C04_response_shape.
Print Assumptions C04_accept_no_follow_nothing.
Print Assumptions C04_accept_verified_effects.
Print Assumptions C04_accept_unverified_nothing.
Print Assumptions C04_undo_reject_block_store_nothing.
