(* C18 - property containers behave as plain sequences / single slots.
   Statements over the cell-level model of Streams/Container.v (value type
   arbitrary, histories of any length, indices anywhere in range) and the slot
   model of Streams/Slot.v; the tie to the 44 + 59 generated property files is
   the template obligation below (recomputed by the translator on this run) plus
   the correspondence run. *)
From Coq Require Import String List Bool Arith.
From Verif Require Import Base.ListX Vocab.Tables Streams.Container Streams.ContainerTemplate Streams.Slot Streams.TableSpec.
From Verif Require Import Proofs.ContainerProofs Proofs.SlotProofs Proofs.TableProofs.
From Verif Require Import Gen.TablesShipped.
Import ListNotations.
Open Scope string_scope.

(* does the shipped Swap re-number the two cells it exchanges? (read from the template text) *)
Definition swap_fixed : bool :=
  match assoc "Swap" container_template with Some b => String.eqb b swap_body_fixed | None => false end.

Theorem C18_shape : shape_errors = nil.
Proof. vm_compute. reflexivity. Qed.

(* all 44 non-functional properties share one template, and it is the one the model was written from *)
Theorem C18_template : container_nonuniform = nil /\
  container_template = expected_template (if swap_fixed then swap_body_fixed else swap_body_unfixed).
Proof. vm_compute. split; reflexivity. Qed.

(* every history of in-range operations refines the plain list: same values in the same
   order, same length, forward and backward iteration, and the invariant the iterators rely on *)
Theorem C18_refines_list : forall (A : Type) fix_idx ops l, Inv A l -> ops_in_range A (length l) ops = true ->
  (fix_idx = true \/ forallb (fun o => negb (is_swap A o)) ops = true) ->
  let l' := fold_left (step A fix_idx) ops l in
  let spec := fold_left (step_list A) ops (vals A l) in
  Inv A l' /\ vals A l' = spec /\ length l' = length spec /\ forward A l' = spec /\ backward A l' = rev spec.
Proof. exact history_refines. Qed.

(* with a Swap that does not re-number, iteration after a swap is wrong (finding F9) *)
Theorem C18_swap_unfixed_refuted : exists (l : list (cell nat)) i j,
  Inv nat l /\ i < length l /\ j < length l /\
  forward nat (swap nat false i j l) <> step_list nat (vals nat l) (OSwap nat i j).
Proof. exact swap_unfixed_refuted. Qed.

(* functional properties and iterator elements: clear() resets every representation *)
Theorem C18_clear_tables : forallb clear_ok props_shipped = true.
Proof. exact clear_ok_shipped. Qed.

Theorem C18_single_slot : forall (V : Type) cl ops (s : st V) g, ops <> [] -> all_cleared V cl s -> In g (fields V s) ->
  (forall f v, In (SSet V f v) ops -> In f (fields V s)) ->
  get V g (fold_left (sstep V cl) ops s) =
    match last_set V ops with Some (f, v) => if String.eqb g f then Some v else None | None => None end.
Proof. exact history_single_slot. Qed.

Example C18_example :
  let l := fold_left (step nat true) [OAppend nat 1; OPrepend nat 2; OInsert nat 1 3; ORemove nat 0; OSwap nat 0 1; OSet nat 1 9] [] in
  vals nat l = [1; 9] /\ forward nat l = [1; 9] /\ backward nat l = [9; 1].
Proof. vm_compute. repeat split. Qed.

Print Assumptions C18_shape.
Print Assumptions C18_template.
Print Assumptions C18_refines_list.
Print Assumptions C18_swap_unfixed_refuted.
Print Assumptions C18_clear_tables.
Print Assumptions C18_single_slot.
