(* C20 - served ActivityStreams bodies are faithful, de-duplicated and integrity-tagged.
   For EVERY environment: every trace of GetInbox / GetOutbox / the handler
   passes the serving monitor (Pub.Monitors.serve_step): the body written is
   the serialisation of the value the application supplied - for the inbox
   after dedupeOrderedItems, for the handler after clearSensitiveFields -;
   Content-Type is the ActivityStreams one; Date is the IMF-fixdate of the
   instant the application's clock answered; Digest is the SHA-256 tag of the
   bytes written (the harness recomputes SHA-256/base64 of the captured bytes and
   replaces a correct header by the placeholder the model uses); the handler's
   status is 410 exactly for a Tombstone.  De-duplication keeps first
   occurrences in order (any length, duplicates anywhere). *)
From Coq Require Import String List Bool ZArith.
From Verif Require Import Base.ListX Base.Json Base.Free Base.Time Pub.Events Pub.Value Pub.Util Pub.SideEffect Pub.BaseActor Pub.Monitors.
From Verif Require Import Proofs.ServeProofs.
Import ListNotations.
Open Scope string_scope.

Definition served (entry : string) (tr : list (ev * ans)) : Prop := exists st, run_monitor (serve_step entry) s0 tr = Some st.

Theorem C20_get_inbox : forall cfg r tr o, runs (get_inbox_http cfg r) tr o -> served "getinbox" tr.
Proof. intros cfg r tr o H. destruct (wp_sound ev ans sstate (serve_step "getinbox") _ _ _ (serve_get_inbox cfg r) tr o H) as [st [E _]]. exists st. exact E. Qed.
Theorem C20_get_outbox : forall r tr o, runs (get_outbox_http r) tr o -> served "getoutbox" tr.
Proof. intros r tr o H. destruct (wp_sound ev ans sstate (serve_step "getoutbox") _ _ _ (serve_get_outbox r) tr o H) as [st [E _]]. exists st. exact E. Qed.
Theorem C20_handler : forall r tr o, runs (handler_http r) tr o -> served "handler" tr.
Proof. intros r tr o H. destruct (wp_sound ev ans sstate (serve_step "handler") _ _ _ (serve_handler r) tr o H) as [st [E _]]. exists st. exact E. Qed.

(* de-duplication: a sub-list of the page whose ids are the first occurrences, in order *)
Theorem C20_dedupe : forall l seen,
  (forall e, In e l -> exists i, item_id e = Ok i /\ is_nil i = false) ->
  exists l', dedupe_items seen l = Ok l' /\ sublist l' l /\
    (forall ids ids', Forall2 (fun e i => item_id e = Ok i) l ids -> Forall2 (fun e i => item_id e = Ok i) l' ids' ->
       ids' = dedupe_against seen ids).
Proof. exact dedupe_items_spec. Qed.
Theorem C20_first_occurrences : forall l seen, NoDup (dedupe_against seen l) /\ forall x, In x (dedupe_against seen l) <-> In x l /\ ~ In x seen.
Proof. intros l seen. split; [apply dedupe_against_nodup|intros x; apply dedupe_against_spec]. Qed.

(* tests of the date rendering over the range of years (not a proof of RFC 7231 conformance for every instant;
   the correspondence compares every generated instant with time.Format) *)
Example C20_dates :
  http_date 0 = "Thu, 01 Jan 1970 00:00:00 GMT" /\ http_date 1582977600 = "Sat, 29 Feb 2020 12:00:00 GMT" /\
  http_date 253402300799 = "Fri, 31 Dec 9999 23:59:59 GMT" /\ http_date (-62135596800) = "Mon, 01 Jan 0001 00:00:00 GMT" /\
  http_date 951782400 = "Tue, 29 Feb 2000 00:00:00 GMT" /\ http_date (-2203891200) = "Thu, 01 Mar 1900 00:00:00 GMT".
Proof. vm_compute. repeat split. Qed.

Print Assumptions C20_get_inbox.
Print Assumptions C20_get_outbox.
Print Assumptions C20_handler.
Print Assumptions C20_dedupe.
Print Assumptions C20_first_occurrences.
