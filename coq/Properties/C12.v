(* C12 - each type has exactly its ontology's properties, with the declared ranges.
   Tables are re-read from /repo/streams on this run, the ontology independently
   from /repo/astool/*.jsonld.  Domain of the table statements: the 63 shipped
   types and 103 generated properties; the meaning lemmas hold for every
   saturated ontology; the decoding statement for every JSON scalar. *)
From Coq Require Import String Ascii List Bool ZArith Relations.
From Verif Require Import Base.ListX Vocab.Tables Vocab.Ontology Vocab.Spec Streams.TableSpec Streams.Literals.
From Verif Require Import Proofs.SpecProofs Proofs.TableProofs Proofs.LiteralProofs.
From Verif Require Import Gen.TablesShipped Gen.OntologyShipped.
Import ListNotations.
Open Scope string_scope.

Theorem C12_shape : shape_errors = nil.
Proof. vm_compute. reflexivity. Qed.

Theorem C12_tables_ok : tables_ok ont_shipped types_shipped props_shipped = true.
Proof. exact tables_ok_shipped. Qed.

(* exactly the ontology's properties: every one is a struct field, is deserialised, is serialised *)
Theorem C12_type_props : forall t, In t types_shipped ->
  forall p, In p (t_fields t) <-> In p (props_of_type ont_shipped (t_name t)).
Proof. exact fields_exact. Qed.

Theorem C12_fields_used : forall t, In t types_shipped ->
  t_deser t = t_fields t /\ t_ser t = t_fields t /\ NoDup (t_fields t).
Proof. exact fields_all_used. Qed.

(* what props_of_type means: domain contains the type or an ancestor, not withheld
   from it or an ancestor, plus id, plus type unless typeless *)
Theorem C12_props_meaning : forall ont, saturated ont = true -> forall a p,
  In p (props_of_type ont a) <->
    (exists o, In o (oprops ont) /\ o_name o = p /\ InDomain ont o a /\ ~ Withheld ont o a)
    \/ p = "id" \/ (p = "type" /\ is_typeless ont a = false).
Proof. exact props_of_type_meaning. Qed.

(* a member outside that set (and its Map spelling) is not in the known-key chain *)
Theorem C12_known_keys : forall t, In t types_shipped ->
  forall k, In k (t_known t) <-> In k (known_spec ont_shipped t).
Proof. exact known_exact. Qed.

(* exactly the declared kinds, functional / natural-language flags *)
Theorem C12_prop_kinds : forall p, In p props_shipped ->
  exists ks fn nl, kinds_spec ont_shipped (p_name p) = Some (ks, fn, nl) /\
    (forall k, In k (member_kinds p) <-> In k ks) /\ NoDup (member_kinds p) /\
    p_functional p = fn /\ p_has_map p = nl /\ p_map_name p = nl /\ chain_ok p = true.
Proof. exact prop_kinds_exact. Qed.

Theorem C12_kinds_meaning : forall ont, saturated ont = true -> forall r k,
  In k (kinds_of_range ont r) <->
    exists x, In x r /\ ((is_lit_kind x = true /\ k = x) \/
      (is_lit_kind x = false /\ (k = x \/ (In k (class_names ont) /\ clos_trans string (parent_rel ont) k x)))).
Proof. exact kinds_of_range_meaning. Qed.

(* decoding an element reports the first kind of the chain that accepts it, "UNK" iff none does *)
Theorem C12_decode_lands : forall url_ok typeless chain v k, decode_elem url_ok typeless chain v = k ->
  (In k chain /\ accepts url_ok typeless k v = true /\
     forall k', In k' chain -> accepts url_ok typeless k' v = true ->
       exists pre post, chain = (pre ++ k :: post)%list /\ forall x, In x pre -> accepts url_ok typeless x v = false)
  \/ (k = "UNK" /\ forall k', In k' chain -> accepts url_ok typeless k' v = false).
Proof. exact decode_elem_sound. Qed.

(* the value a duration denotes: 365-day years, 30-day months *)
Theorem C12_duration_value : forall dy dm dd dh dmi ds,
  all_digits dy -> all_digits dm -> all_digits dd -> all_digits dh -> all_digits dmi -> all_digits ds ->
  dy <> [] -> dm <> [] -> dd <> [] -> dh <> [] -> dmi <> [] -> ds <> [] ->
  let y := digits_val dy in let mo := digits_val dm in let d := digits_val dd in
  let h := digits_val dh in let mi := digits_val dmi in let s := digits_val ds in
  (0 <= y -> 0 <= mo -> 0 <= d -> 0 <= h -> 0 <= mi -> 0 <= s ->
  ns_of y mo d h mi s < two63 ->
  parse_duration (lexical dy dm dd dh dmi ds) = DOk (ns_of y mo d h mi s))%Z.
Proof. exact duration_value. Qed.

Example C12_example :
  mem "likes" (props_of_type ont_shipped "Note") = true /\ mem "items" (props_of_type ont_shipped "OrderedCollection") = false /\
  mem "object" (props_of_type ont_shipped "Question") = false /\
  parse_duration "P1Y2M3DT4H5M6S" = DOk 36993906000000000%Z /\
  parse_datetime "2020-02-29T12:00:00+01:00" = Some (1582974000, 3600)%Z.
Proof. vm_compute. repeat split. Qed.

Print Assumptions C12_shape.
Print Assumptions C12_tables_ok.
Print Assumptions C12_type_props.
Print Assumptions C12_fields_used.
Print Assumptions C12_props_meaning.
Print Assumptions C12_known_keys.
Print Assumptions C12_prop_kinds.
Print Assumptions C12_kinds_meaning.
Print Assumptions C12_decode_lands.
Print Assumptions C12_duration_value.
