(* C01 - ActivityStreams documents survive decode -> encode without loss.
   Streams/Codec.v: decode followed by encode as one pass over the document, driven by the tables the translator reads out
   of the generated code (known keys of every type, the order in which an element deserialiser tries the kinds, the
   properties with a <name>Map spelling) and by the literal codecs of streams/values (Streams/CodecInst.v). *)
From Coq Require Import String List Bool Arith ZArith.
From Verif Require Import Base.ListX Base.Json Vocab.Tables Gen.TablesShipped Streams.Literals Streams.Codec Streams.CodecInst.
From Verif Require Import Proofs.CodecProofs Proofs.IdemProofs Proofs.TimeIdemProofs Proofs.DocIdemProofs Proofs.DocKeptProofs.
Import ListNotations.
Open Scope string_scope.
Open Scope list_scope.

(* exactness: on a value whose members are in canonical form (cmembers: scalars in canonical lexical form and URL-normal
   IRIs - `lexical` -, single values as scalars, the Map spelling exactly for a single language map, no null for a known
   property, embedded values canonical in turn; unknown members unrestricted) the round trip returns the same members,
   same values, same array order - for every type, every nesting depth, any tables and any literal codecs *)
Theorem C01_roundtrip : forall T P url_ok norm_iri norm n row m m',
  cmembers P url_ok norm_iri norm n row m -> rt_type T P url_ok norm_iri norm n row m = Some m' -> m' = m.
Proof. exact roundtrip_identity. Qed.

(* no member is dropped silently, for every document the decoder accepts *)
Theorem C01_members_kept : forall T P url_ok norm_iri norm n row m m', rt_type T P url_ok norm_iri norm n row m = Some m' -> forall kv, In kv m ->
  match prop_of_key P row (fst kv) with
  | None => In kv m'
  | Some (p, is_map) =>
      (is_map = true /\ assoc (p_name p) m <> None) \/
      rt_prop T url_ok norm_iri norm (rt_type T P url_ok norm_iri norm (pred n)) p (snd kv) = JNull \/
      In (out_name p (rt_prop T url_ok norm_iri norm (rt_type T P url_ok norm_iri norm (pred n)) p (snd kv)),
          rt_prop T url_ok norm_iri norm (rt_type T P url_ok norm_iri norm (pred n)) p (snd kv)) m'
  end.
Proof. exact members_kept. Qed.

(* the rebuilt @context (cx_type: what Serialize names) holds exactly the vocabularies used - the type's own and, for every
   known member that encodes to something, the property's own and those of the values embedded in it - and a canonical
   document's round trip leaves it unchanged.  (cx_doc is compared with the @context of every real output by the check.) *)
Theorem C01_context_exact : forall T P url_ok norm_iri norm n row m u,
  In u (cx_type T P url_ok norm_iri norm (S n) row m) <->
  u = t_vocab_uri row \/
  exists kv p is_map, In kv m /\ prop_of_key P row (fst kv) = Some (p, is_map) /\
    (is_map && match assoc (p_name p) m with Some _ => true | None => false end) = false /\
    rt_prop T url_ok norm_iri norm (rt_type T P url_ok norm_iri norm n) p (snd kv) <> JNull /\
    (u = p_vocab_uri p \/ In u (cx_prop T url_ok norm (rt_type T P url_ok norm_iri norm n) (cx_type T P url_ok norm_iri norm n) p (snd kv))).
Proof. exact context_exact. Qed.
Theorem C01_context_roundtrip : forall T P url_ok norm_iri norm n row m m',
  cmembers P url_ok norm_iri norm n row m -> rt_type T P url_ok norm_iri norm n row m = Some m' ->
  cx_type T P url_ok norm_iri norm n row m' = cx_type T P url_ok norm_iri norm n row m.
Proof. exact context_roundtrip. Qed.

(* REFUTED clause: with both spellings of a natural-language property present the Map one is dropped (finding F13) *)
Definition f13_doc : json :=
  JObj [("@context", JStr "https://www.w3.org/ns/activitystreams"); ("type", JStr "Note"); ("name", JStr "both"); ("nameMap", JObj [("en", JStr "spellings")])].
Theorem C01_both_spellings_refuted :
  exists out, rt_shipped f13_doc = Some out /\ jget "nameMap" f13_doc <> None /\ jget "nameMap" out = None /\ jget "name" out = Some (JStr "both").
Proof. eexists. split; [vm_compute; reflexivity|]. vm_compute. repeat split; discriminate. Qed.

(* non-vacuity: a document with an embedded value, a list, a language map, timestamps and unknown members is its own round trip *)
Definition ex_doc : json :=
  JObj [("type", JStr "Create"); ("id", JStr "https://example.com/a/1"); ("actor", JStr "https://example.com/users/alice");
        ("to", JArr [JStr "https://example.com/users/bob"; JStr "https://www.w3.org/ns/activitystreams#Public"]);
        ("published", JStr "2020-02-03T04:05:06Z");
        ("object", JObj [("type", JStr "Note"); ("id", JStr "https://example.com/n/1"); ("contentMap", JObj [("en", JStr "hello"); ("fr", JStr "salut")]);
                         ("duration", JStr "PT5S"); ("attributedTo", JStr "https://example.com/users/alice"); ("x-ext", JArr [JNum 1; JNull])]);
        ("ext:vendor", JObj [("anything", JArr [JArr [JNum 1]]); ("n", JNull)])].
Example C01_example : rt_shipped ex_doc = Some ex_doc.
Proof. vm_compute. reflexivity. Qed.

(* ... and the hypothesis of C01_roundtrip is met by concrete members with the shipped tables and codecs *)
Lemma lexical_str_example s : url_ok s = false -> parse_datetime s = None -> parse_duration s = DErr ->
  lexical url_ok norm_iri norm (JStr s).
Proof.
  intros Hu Hd Hp. split.
  - intros k v. unfold norm. rewrite Hu, Hd, Hp.
    repeat match goal with |- context [String.eqb k ?x] => destruct (String.eqb k x) end; cbn; intros H; inversion H; reflexivity.
  - intros s0 E Hok. inversion E; subst. congruence.
Qed.
Definition ex_prop : prop_row :=
  {| p_name := "content"; p_vocab := "activitystreams"; p_vocab_uri := ""; p_functional := false; p_has_map := true; p_map_name := true; p_aliased_name := true;
     p_members := []; p_deser := ["IRI"; "@string"; "@langstring"; "UNK"]; p_ser := []; p_clear := []; p_setters_ok := true |}.
Definition ex_row : type_row :=
  {| t_name := "Note"; t_vocab := "activitystreams"; t_vocab_uri := ""; t_typeless := false; t_fields := ["content"]; t_deser := ["content"];
     t_known := ["content"; "contentMap"]; t_ser := ["content"]; t_extends := []; t_extended_by := []; t_disjoint := [] |}.
Example C01_hypothesis_met :
  cmembers [ex_prop] url_ok norm_iri norm 1 ex_row [("type", JStr "Note"); ("content", JStr "hello"); ("x-ext", JNull)].
Proof.
  cbn [cmembers]. constructor; [vm_compute; exact I|]. constructor; [|constructor; [vm_compute; exact I|constructor]].
  change (prop_of_key [ex_prop] ex_row (fst ("content", JStr "hello"))) with (Some (ex_prop, false)).
  cbn [snd fst]. repeat split; try discriminate; try (intros; discriminate).
  - apply lexical_str_example; vm_compute; reflexivity.
Qed.

(* ---- "a second round trip changes nothing" (Proofs/IdemProofs.v): for any tables whose rows are row_ok (decidable; true of
   the shipped tables: shipped_tables_ok) and any literal codecs that are codec_stable (what the second pass needs of them: a
   serialised literal is read back unchanged, a kind that rejected the input does not accept another kind's output, ...),
   on members that are `good` (unique keys, no one-element array holding an array for a known list property - recursively
   through embedded values; the examples nested_array_not_idempotent / duplicate_key_not_idempotent show both are needed)
   the output of the round trip is its own round trip, and is `good` again. ---- *)
Theorem C01_idempotent : forall T P url_ok norm_iri norm,
  codec_stable T P url_ok norm_iri norm -> (forall r, In r T -> row_ok P r = true) ->
  forall n row m m', row_ok P row = true -> good T P n row m = true ->
  rt_type T P url_ok norm_iri norm n row m = Some m' -> rt_type T P url_ok norm_iri norm n row m' = Some m'.
Proof. exact roundtrip_idempotent. Qed.
Theorem C01_good_preserved : forall T P url_ok norm_iri norm,
  codec_stable T P url_ok norm_iri norm -> (forall r, In r T -> row_ok P r = true) ->
  (forall p1 p2, In p1 P -> In p2 P -> p_has_map p1 = true -> p_name p2 <> String.append (p_name p1) "Map") ->
  forall n row m m', row_ok P row = true -> good T P n row m = true ->
  rt_type T P url_ok norm_iri norm n row m = Some m' -> good T P n row m' = true.
Proof. exact good_preserved. Qed.
(* the shipped tables and codecs meet every hypothesis: codec_stable is proved for them field by field, including that a
   printed duration / dateTime is read back as itself (C01_duration_idem: after fix F23; dateTimes: the calendar round trip
   for every date, one 400-year cycle by computation and periodicity) - so nothing is assumed *)
Theorem C01_idempotent_shipped : forall n row m m',
  In row types_shipped -> good types_shipped props_shipped n row m = true ->
  rt_type types_shipped props_shipped url_ok norm_iri norm n row m = Some m' ->
  rt_type types_shipped props_shipped url_ok norm_iri norm n row m' = Some m'.
Proof. exact roundtrip_idempotent_shipped_closed. Qed.
Theorem C01_good_preserved_shipped : forall n row m m',
  In row types_shipped -> good types_shipped props_shipped n row m = true ->
  rt_type types_shipped props_shipped url_ok norm_iri norm n row m = Some m' ->
  good types_shipped props_shipped n row m' = true.
Proof. exact good_preserved_shipped_closed. Qed.
Theorem C01_duration_idem : forall e v, norm "@duration" e = Some v -> norm "@duration" v = Some v.
Proof. exact duration_idem. Qed.
Theorem C01_time_literals_idem : forall k e v, k = "@datetime" \/ k = "@duration" -> norm k e = Some v -> norm k v = Some v.
Proof. exact time_literals_idem_shipped. Qed.
(* finding F23 (repaired): a duration beyond the range of time.Duration is no duration value any more and is kept verbatim *)
Theorem C01_overflowing_duration_kept :
  rt_shipped dur_doc = Some dur_doc /\ norm "@duration" (JStr "PT18446744073S") = None /\
  norm "@duration" (JStr "P400Y") = None /\ norm "@duration" (JStr "P292Y") = Some (JStr "P292Y").
Proof. exact overflowing_duration_kept. Qed.

(* ---- the same for whole documents: rt_shipped = pick the type, remove the top-level @context, rt_type, delete nested
   @context through maps (what Serialize does).  doc_ok (boolean): the members are `good` and no known natural-language-like
   member holds an object carrying a nested @context unless its chain names a type (cgood).  Nothing is assumed. ---- *)
Theorem C01_doc_idempotent_shipped : forall doc d1, doc_ok doc = true -> rt_shipped doc = Some d1 -> rt_shipped d1 = Some d1.
Proof. exact rt_shipped_idempotent. Qed.
(* ... and doc_ok is needed - REFUTED clause (finding F24, replayed on the real code: the same three documents): an object
   with a nested @context that is no string on a natural-language property is kept on the first pass, loses its @context in
   Serialize, and is a language map - renamed nameMap - on the second *)
Theorem C01_context_in_language_map_refuted :
  rt_shipped ctx_doc = Some (JObj [("type", JStr "Note"); ("name", JObj [("en", JStr "x")])]) /\
  rt_shipped (JObj [("type", JStr "Note"); ("name", JObj [("en", JStr "x")])]) = Some (JObj [("type", JStr "Note"); ("nameMap", JObj [("en", JStr "x")])]) /\
  doc_ok ctx_doc = false.
Proof. exact context_in_language_map_not_idempotent. Qed.
(* exactness for whole documents: a canonical document without nested @context is its own round trip, modulo the top-level
   @context that Serialize rebuilds (C01_context_exact) *)
Theorem C01_doc_roundtrip : forall T P url_ok norm_iri norm n m row,
  type_of_doc T m = Some row ->
  cmembers P url_ok norm_iri norm (S n) row (remove_key "@context" m) ->
  clean_maps 16 (remove_key "@context" m) = remove_key "@context" m ->
  rt_doc T P url_ok norm_iri norm (S n) (JObj m) = Some (JObj (remove_key "@context" m)).
Proof. exact rt_doc_identity. Qed.

(* ---- "no member is silently dropped other than a nested @context or a JSON null given for a known property (a natural-
   language member may reappear under its other spelling)", for whole documents and any tables / codecs: every member other
   than the top-level @context comes back - unknown ones verbatim up to clean_val (the deletion of @context inside maps reached
   through maps), known ones under out_name - unless it encodes to null or is the Map spelling next to the plain one (F13) ---- *)
Theorem C01_doc_members_kept : forall T P url_ok norm_iri norm n m d1,
  rt_doc T P url_ok norm_iri norm n (JObj m) = Some d1 ->
  exists row m', type_of_doc T m = Some row /\ d1 = JObj m' /\
    forall kv, In kv m -> fst kv <> "@context" ->
      match prop_of_key P row (fst kv) with
      | None => In (fst kv, clean_val (snd kv)) m'
      | Some (p, is_map) =>
          let w := rt_prop T url_ok norm_iri norm (rt_type T P url_ok norm_iri norm (pred n)) p (snd kv) in
          (is_map = true /\ assoc (p_name p) m <> None) \/ w = JNull \/ In (out_name p w, clean_val w) m'
      end.
Proof. exact rt_doc_members_kept. Qed.
(* ---- exactness made decidable for the shipped codecs: canonical_scalar is `lexical` exactly (a string that is a dateTime /
   duration is printed as the codec prints it; the numbers 0 and 1 are not canonical - xsd:boolean writes them as false / true);
   canonical_doc (boolean) implies the document is its own round trip up to the rebuilt top-level @context ---- *)
Theorem C01_canonical_scalar : forall e, canonical_scalar e = true <-> lexical url_ok norm_iri norm e.
Proof. exact canonical_scalar_lexical. Qed.
Theorem C01_canonical_doc_roundtrip : forall d, canonical_doc d = true -> rt_shipped d = Some (jremove "@context" d).
Proof. exact rt_shipped_canonical. Qed.

Print Assumptions C01_roundtrip.
Print Assumptions C01_members_kept.
Print Assumptions C01_both_spellings_refuted.
Print Assumptions C01_context_exact.
Print Assumptions C01_context_roundtrip.
Print Assumptions C01_idempotent.
Print Assumptions C01_good_preserved.
Print Assumptions C01_idempotent_shipped.
Print Assumptions C01_good_preserved_shipped.
Print Assumptions C01_duration_idem.
Print Assumptions C01_time_literals_idem.
Print Assumptions C01_overflowing_duration_kept.
Print Assumptions C01_doc_idempotent_shipped.
Print Assumptions C01_context_in_language_map_refuted.
Print Assumptions C01_doc_roundtrip.
Print Assumptions C01_doc_members_kept.
Print Assumptions C01_canonical_scalar.
Print Assumptions C01_canonical_doc_roundtrip.
