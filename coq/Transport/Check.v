(* C19 correspondence: the transport model run against the scripted clock / signer / client of the harness, compared
   with what the real HttpSigTransport did (requests as multisets: the goroutines of a batch finish in any order). *)
From Coq Require Import String List Bool Arith ZArith.
From Verif Require Import Base.ListX Base.Free Base.Time Transport.Model.
Import ListNotations.
Open Scope list_scope.
Open Scope string_scope.

Record observation := {
  o_kind : string; o_agent : string; o_time : Z; o_payload : string; o_rcpts : list string;
  o_script : list (string * (bool * nat * string * string));       (* url -> (signer refuses, status or 0, transport error, body) *)
  o_signs : list (bool * string * string * treq * option string);   (* post signer?, key, key id, request snapshot, body given *)
  o_dos : list treq;
  o_ok : bool; o_body : string; o_err : string }.

Definition script_env (o : observation) (e : tev) : tans :=
  match e with
  | TNow => TTime (o_time o)
  | TSign post _ _ req body =>
      match assoc (q_url req) (o_script o) with
      | Some (true, _, _, _) => TSignErr ("signer refuses " ++ q_url req)
      | _ => TSigned (("Signature", "sig-of-" ++ q_url req) :: match body with Some b => [("Digest", "len=" ++ nat_str (String.length b))] | None => [] end)
      end
  | TDo req =>
      match assoc (q_url req) (o_script o) with
      | Some (_, O, msg, _) => TDoErr msg
      | Some (_, code, _, body) => TResp code (nat_str code ++ " scripted") body
      | None => TResp 200 "200 scripted" ""
      end
  end.

Fixpoint trun {A} (env : tev -> tans) (m : tprog A) : A * list tev :=
  match m with
  | Ret a => (a, [])
  | Op e k => let '(a, tr) := trun env (k (env e)) in (a, e :: tr)
  end.

Definition pair_eqb (a b : string * string) : bool := String.eqb (fst a) (fst b) && String.eqb (snd a) (snd b).
Definition same_headers (a b : list (string * string)) : bool :=
  Nat.eqb (length a) (length b) && forallb (fun h => existsb (pair_eqb h) b) a.
Definition opt_eqb (a b : option string) : bool := match a, b with Some x, Some y => String.eqb x y | None, None => true | _, _ => false end.
Definition req_eqb (a b : treq) : bool :=
  String.eqb (q_method a) (q_method b) && String.eqb (q_url a) (q_url b) && same_headers (q_headers a) (q_headers b) && opt_eqb (q_body a) (q_body b).

Fixpoint remove_first {A} (f : A -> bool) (l : list A) : option (list A) :=
  match l with
  | [] => None
  | x :: r => if f x then Some r else match remove_first f r with Some r' => Some (x :: r') | None => None end
  end.
Fixpoint multiset_eq {A} (eqb : A -> A -> bool) (a b : list A) : bool :=
  match a with
  | [] => match b with [] => true | _ => false end
  | x :: r => match remove_first (eqb x) b with Some b' => multiset_eq eqb r b' | None => false end
  end.

Definition sign_eqb (a b : bool * string * string * treq * option string) : bool :=
  match a, b with
  | (p1, k1, i1, r1, b1), (p2, k2, i2, r2, b2) =>
      Bool.eqb p1 p2 && String.eqb k1 k2 && String.eqb i1 i2 && String.eqb (q_method r1) (q_method r2) && String.eqb (q_url r1) (q_url r2)
      && same_headers (q_headers r1) (q_headers r2) && opt_eqb b1 b2
  end.

Fixpoint contains (needle hay : string) : bool :=
  if String.prefix needle hay then true else match hay with EmptyString => false | String _ r => contains needle r end.
Fixpoint count_sep (hay : string) : nat :=
  match hay with
  | String a (String b r as rest) => if Nat.eqb (Ascii.nat_of_ascii a) 59 && Nat.eqb (Ascii.nat_of_ascii b) 32 then S (count_sep r) else count_sep rest
  | _ => 0
  end.

Definition model_cfg (o : observation) : tcfg := {| c_app_agent := o_agent o; c_key := match o_signs o with (_, k, _, _, _) :: _ => k | [] => "" end;
                                                   c_keyid := match o_signs o with (_, _, i, _, _) :: _ => i | [] => "" end |}.

Definition signs_of (tr : list tev) : list (bool * string * string * treq * option string) :=
  flat_map (fun e => match e with TSign p k i r b => [(p, k, i, r, b)] | _ => [] end) tr.
Definition dos_of (tr : list tev) : list treq := flat_map (fun e => match e with TDo r => [r] | _ => [] end) tr.

(* complaints; [] = the implementation did what the model does *)
Definition check_obs (o : observation) : list string :=
  let cfg := model_cfg o in
  let env := script_env o in
  let common (tr : list tev) : list string :=
    ((if multiset_eq sign_eqb (signs_of tr) (o_signs o) then [] else ["signer: not given exactly the model's requests (credentials, headers set before signing, body)"]) ++
    (if multiset_eq req_eqb (dos_of tr) (o_dos o) then [] else ["client: did not receive exactly the signed requests (altered after signing, missing, or sent twice)"]))%list in
  if String.eqb (o_kind o) "deref" then
    match o_rcpts o with
    | [u] => let '(r, tr) := trun env (dereference cfg u) in
             (common tr ++ match r with
                          | inl body => if o_ok o && String.eqb body (o_body o) then [] else ["Dereference: the model returns the body"]
                          | inr f => if negb (o_ok o) && String.eqb (failure_message f) (o_err o) then [] else [String.append "Dereference: the model fails: " (failure_message f)]
                          end)%list
    | _ => ["?"]
    end
  else if String.eqb (o_kind o) "deliver" then
    match o_rcpts o with
    | [u] => let '(r, tr) := trun env (deliver cfg (o_payload o) u) in
             (common tr ++ match r with
                          | None => if o_ok o then [] else ["Deliver: the model succeeds"]
                          | Some f => if negb (o_ok o) && String.eqb (failure_message f) (o_err o) then [] else [String.append "Deliver: the model fails: " (failure_message f)]
                          end)%list
    | _ => ["?"]
    end
  else
    let '(r, tr) := trun env (batch_deliver cfg (o_payload o) (o_rcpts o)) in
    (common tr ++ match r with
                 | None => if o_ok o then [] else ["BatchDeliver: error although every attempt succeeded"]
                 | Some fs => if o_ok o then ["BatchDeliver: no error although an attempt failed"] else
                              ((if forallb (fun f => contains (failure_message f) (o_err o)) fs then [] else ["BatchDeliver: a failure is not named in the error"]) ++
                              (if Nat.eqb (S (count_sep (o_err o))) (length fs) then [] else ["BatchDeliver: the error does not name each failure once"]))%list
                 end)%list.
