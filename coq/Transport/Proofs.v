(* C19: what every run of the transport model does, for every clock / signer / HTTP client. *)
From Coq Require Import String List Bool Arith ZArith Lia Permutation.
From Verif Require Import Base.ListX Base.Free Base.Time Pub.Value Gen.PubShipped Transport.Model.
Import ListNotations.
Open Scope string_scope.
Open Scope list_scope.

Lemma truns_bind {A B} (m : tprog A) (f : A -> tprog B) : forall tr b, runs (bind m f) tr b ->
  exists tr1 tr2 a, tr = tr1 ++ tr2 /\ runs m tr1 a /\ runs (f a) tr2 b.
Proof.
  induction m as [a|e k IH]; intros tr b H; simpl in H.
  - exists [], tr, a. split; [reflexivity|]. split; [split; reflexivity|exact H].
  - destruct tr as [|[e' x] tr]; [destruct H|]. destruct H as [-> H].
    destruct (IH x tr b H) as [tr1 [tr2 [a [E [H1 H2]]]]]. exists ((e, x) :: tr1), tr2, a.
    split; [simpl; rewrite E; reflexivity|]. split; [simpl; split; [reflexivity|exact H1]|exact H2].
Qed.

(* ---- status classification ---- *)
Theorem success_codes_exact n : is_success n = true <-> n = 200 \/ n = 201 \/ n = 202.
Proof.
  unfold is_success, success_codes. cbn [existsb code_of String.eqb Ascii.eqb Bool.eqb]. rewrite !orb_true_iff, !Nat.eqb_eq.
  split; [intros [H|[H|[H|H]]]; [auto|auto|auto|discriminate]|intros [H|[H|H]]; auto].
Qed.

(* ---- one Deliver ---- *)
Definition has_header (k v : string) (req : treq) : Prop := In (k, v) (q_headers req).

(* the request as the signer sees it *)
Definition signed_request_ok (cfg : tcfg) (post : bool) (url : string) (t : Z) (body : option string) (req : treq) : Prop :=
  q_method req = (if post then "POST" else "GET") /\ q_url req = url /\ q_body req = body /\
  has_header "Date" (http_date t) req /\ has_header "Host" (host_of url) req /\
  has_header "User-Agent" (c_app_agent cfg ++ " " ++ gofed_agent) req /\
  (if post then has_header (const "contentTypeHeader") (const "contentTypeHeaderValue") req
   else has_header (const "acceptHeader") (const "acceptHeaderValue") req).

Theorem deliver_run cfg b url tr r : runs (deliver cfg b url) tr r ->
  exists tz req s rest, tr = (TNow, tz) :: (TSign true (c_key cfg) (c_keyid cfg) req (Some b), s) :: rest /\
    signed_request_ok cfg true url (match tz with TTime z => z | _ => 0%Z end) (Some b) req /\
    match s with
    | TSigned added =>
        (* handed to the client exactly as signed: same method, url, body bytes, the headers that were signed plus the signer's *)
        exists x, rest = [(TDo {| q_method := "POST"; q_url := url; q_headers := q_headers req ++ added; q_body := Some b |}, x)] /\
          (r = None <-> exists code txt body, x = TResp code txt body /\ (code = 200 \/ code = 201 \/ code = 202))
    | _ => rest = [] /\ r <> None
    end.
Proof.
  unfold deliver, call. cbn [bind]. intros H.
  destruct tr as [|[e0 tz] tr]; [destruct H|]. destruct H as [-> H].
  destruct tr as [|[e1 s] tr]; [destruct H|]. destruct H as [-> H].
  eexists tz, _, s, tr. split; [reflexivity|]. split.
  { unfold signed_request_ok, has_header, base_headers. cbn. repeat split; auto 10. }
  destruct s; cbn [runs] in H; try (destruct H as [-> <-]; split; [reflexivity|discriminate]).
  destruct tr as [|[e2 x] tr]; [destruct H|]. destruct H as [-> H].
  exists x. destruct x; cbn [runs] in H.
  - destruct H as [-> <-]. split; [reflexivity|]. split; [discriminate|intros [c [tt0 [bd [E _]]]]; discriminate].
  - destruct H as [-> <-]. split; [reflexivity|]. split; [discriminate|intros [c [tt0 [bd [E _]]]]; discriminate].
  - destruct H as [-> <-]. split; [reflexivity|]. split; [discriminate|intros [c [tt0 [bd [E _]]]]; discriminate].
  - destruct (is_success status) eqn:Es; destruct H as [-> <-]; (split; [reflexivity|]).
    + split; [intros _; exists status, status_text, body; split; [reflexivity|apply success_codes_exact; exact Es]|reflexivity].
    + split; [discriminate|]. intros [c [tt0 [bd [E Hc]]]]. inversion E; subst. apply success_codes_exact in Hc. congruence.
  - destruct H as [-> <-]. split; [reflexivity|]. split; [discriminate|intros [c [tt0 [bd [E _]]]]; discriminate].
Qed.

Theorem dereference_run cfg url tr r : runs (dereference cfg url) tr r ->
  exists tz req s rest, tr = (TNow, tz) :: (TSign false (c_key cfg) (c_keyid cfg) req None, s) :: rest /\
    signed_request_ok cfg false url (match tz with TTime z => z | _ => 0%Z end) None req /\
    match s with
    | TSigned added =>
        exists x, rest = [(TDo {| q_method := "GET"; q_url := url; q_headers := q_headers req ++ added; q_body := None |}, x)] /\
          (forall body, r = inl body <-> exists txt, x = TResp 200 txt body)
    | _ => rest = [] /\ forall body, r <> inl body
    end.
Proof.
  unfold dereference, call. cbn [bind]. intros H.
  destruct tr as [|[e0 tz] tr]; [destruct H|]. destruct H as [-> H].
  destruct tr as [|[e1 s] tr]; [destruct H|]. destruct H as [-> H].
  eexists tz, _, s, tr. split; [reflexivity|]. split.
  { unfold signed_request_ok, has_header, base_headers. cbn. repeat split; auto 10. }
  destruct s; cbn [runs] in H; try (destruct H as [-> <-]; split; [reflexivity|intros; discriminate]).
  destruct tr as [|[e2 x] tr]; [destruct H|]. destruct H as [-> H].
  exists x. destruct x; cbn [runs] in H; try (destruct H as [-> <-]; split; [reflexivity|]; intros bd; split; [discriminate|intros [tt0 E]; discriminate]).
  destruct (Nat.eqb status 200) eqn:Es; destruct H as [-> <-]; (split; [reflexivity|]); intros bd.
  - apply Nat.eqb_eq in Es. subst status. split; [intros E; inversion E; subst; exists status_text; reflexivity|intros [tt0 E]; inversion E; reflexivity].
  - split; [discriminate|]. intros [tt0 E]. inversion E; subst. discriminate.
Qed.

(* ---- the batch ---- *)
Definition sign_urls (tr : list (tev * tans)) : list string :=
  flat_map (fun p => match fst p with TSign _ _ _ req _ => [q_url req] | _ => [] end) tr.
Definition do_count (tr : list (tev * tans)) : nat := length (filter (fun p => match fst p with TDo _ => true | _ => false end) tr).

Lemma deliver_signs_once cfg b url tr r : runs (deliver cfg b url) tr r -> sign_urls tr = [url] /\ do_count tr <= 1.
Proof.
  intros H. destruct (deliver_run cfg b url tr r H) as [tz [req [s [rest [-> [[_ [Hu _]] Hs]]]]]].
  unfold sign_urls, do_count. cbn. rewrite Hu. destruct s; try (destruct Hs as [-> _]; cbn; split; [reflexivity|lia]).
  destruct Hs as [x [-> _]]. cbn. split; [reflexivity|lia].
Qed.

(* every recipient is attempted exactly once, in every run, whatever the other attempts did *)
Theorem batch_attempts_each_once cfg b : forall rcpts tr outs, runs (deliver_all cfg b rcpts) tr outs ->
  sign_urls tr = rcpts /\ length outs = length rcpts /\ do_count tr <= length rcpts.
Proof.
  induction rcpts as [|u rest IH]; intros tr outs H; cbn [deliver_all] in H.
  - destruct H as [-> <-]. repeat split; reflexivity || (cbn; lia).
  - destruct (truns_bind _ _ _ _ H) as [tr1 [tr2 [o [-> [H1 H2]]]]].
    destruct (truns_bind _ _ _ _ H2) as [tr3 [tr4 [os [-> [H3 H4]]]]]. cbn in H4. destruct H4 as [-> <-].
    destruct (deliver_signs_once cfg b u tr1 o H1) as [S1 D1]. destruct (IH tr3 os H3) as [S3 [L3 D3]].
    unfold sign_urls, do_count in *. rewrite !flat_map_app, !filter_app, !app_length, S1, S3. cbn. rewrite app_nil_r, L3. repeat split; lia.
Qed.

Theorem batch_error_iff outs : batch_result outs = None <-> Forall (fun o => o = None) outs.
Proof.
  unfold batch_result. split.
  - intros H. induction outs as [|o r IH]; [constructor|]. cbn in H. destruct o as [f|]; [discriminate|]. constructor; [reflexivity|apply IH; exact H].
  - intros H. assert (E : failures outs = []) by (induction H as [|o r -> _ IH]; [reflexivity|exact IH]). rewrite E. reflexivity.
Qed.
Theorem batch_names_each outs fs : batch_result outs = Some fs -> forall f, In (Some f) outs <-> In f fs.
Proof.
  unfold batch_result. intros H f. assert (E : fs = failures outs) by (destruct (failures outs); [discriminate|congruence]). subst fs.
  unfold failures. rewrite in_flat_map. split.
  - intros Hin. exists (Some f). split; [exact Hin|left; reflexivity].
  - intros [o [Ho Hf]]. destruct o as [g|]; [destruct Hf as [<-|[]]; exact Ho|destruct Hf].
Qed.
(* the goroutines may finish in any order: the outcome is the same up to the order in which the failures are named *)
Theorem batch_order_irrelevant outs outs' : Permutation outs outs' ->
  Permutation (failures outs) (failures outs') /\ (batch_result outs = None <-> batch_result outs' = None).
Proof.
  intros Hp. assert (Hf : Permutation (failures outs) (failures outs')).
  { unfold failures. induction Hp as [|x l1 l2 Hp IH|x y l|l1 l2 l3 _ IH1 _ IH2]; cbn.
    - constructor.
    - apply Permutation_app_head. exact IH.
    - destruct x, y; cbn; try apply Permutation_refl. apply perm_swap.
    - eapply Permutation_trans; eassumption. }
  split; [exact Hf|]. unfold batch_result.
  split; intros H.
  - destruct (failures outs) eqn:E; [|discriminate]. apply Permutation_nil in Hf. rewrite Hf. reflexivity.
  - destruct (failures outs') eqn:E; [|discriminate]. apply Permutation_sym in Hf. apply Permutation_nil in Hf. rewrite Hf. reflexivity.
Qed.
