(* C19: model of pub/transport.go (HttpSigTransport): Dereference, Deliver, BatchDeliver.
   Events: the clock, the signer (with everything it is given), the HTTP client (with the request it receives). *)
From Coq Require Import String List Bool Arith ZArith.
From Verif Require Import Base.ListX Base.Free Base.Time Pub.Value Gen.PubShipped.
Import ListNotations.
Open Scope string_scope.
Open Scope list_scope.

Record treq := { q_method : string; q_url : string; q_headers : list (string * string); q_body : option string }.

Inductive tev :=
| TNow
| TSign (post : bool) (key keyid : string) (req : treq) (body : option string)   (* which signer, credentials, the request as it is when signed, body bytes *)
| TDo (req : treq).
Inductive tans :=
| TTime (t : Z)
| TSigned (added : list (string * string))   (* the headers the signer put on the request *)
| TSignErr (msg : string)
| TResp (status : nat) (status_text body : string)
| TDoErr (msg : string).

Definition tprog := M tev tans.
Notation "x <- m ;; f" := (bind m (fun x => f)) (at level 61, m at next level, right associativity).

Inductive failure := FSign (msg : string) | FDo (msg : string) | FStatus (post : bool) (url : string) (code : nat) (status_text : string) | FBroken.

Record tcfg := { c_app_agent : string; c_key : string; c_keyid : string }.

Definition const (k : string) : string := match assoc k pub_consts with Some v => v | None => "" end.
Definition gofed_agent : string := "(go-fed/activity " ++ const "version" ++ ")".
Definition user_agent (cfg : tcfg) : string := c_app_agent cfg ++ " " ++ gofed_agent.
(* http.StatusOK / Created / Accepted, as listed by isSuccess in the source *)
Definition code_of (name : string) : nat :=
  if String.eqb name "http.StatusOK" then 200 else if String.eqb name "http.StatusCreated" then 201
  else if String.eqb name "http.StatusAccepted" then 202 else 0.
Definition is_success (n : nat) : bool := existsb (fun c => Nat.eqb (code_of c) n) success_codes.

Definition base_headers (cfg : tcfg) (first : string * string) (t : Z) (url : string) : list (string * string) :=
  [first; ("Accept-Charset", "utf-8"); ("Date", http_date t); ("User-Agent", user_agent cfg); ("Host", host_of url)].

Definition call (e : tev) : tprog tans := Op e (fun x => Ret x).

Definition dereference (cfg : tcfg) (url : string) : tprog (string + failure) :=
  t <- call TNow ;;
  let req := {| q_method := "GET"; q_url := url; q_headers := base_headers cfg (const "acceptHeader", const "acceptHeaderValue") (match t with TTime z => z | _ => 0%Z end) url; q_body := None |} in
  s <- call (TSign false (c_key cfg) (c_keyid cfg) req None) ;;
  match s with
  | TSigned added =>
      r <- call (TDo {| q_method := "GET"; q_url := url; q_headers := q_headers req ++ added; q_body := None |}) ;;
      match r with
      | TResp code txt body => if Nat.eqb code 200 then Ret (inl body) else Ret (inr (FStatus false url code txt))
      | TDoErr m => Ret (inr (FDo m))
      | _ => Ret (inr FBroken)
      end
  | TSignErr m => Ret (inr (FSign m))
  | _ => Ret (inr FBroken)
  end.

Definition deliver (cfg : tcfg) (b : string) (url : string) : tprog (option failure) :=
  t <- call TNow ;;
  let req := {| q_method := "POST"; q_url := url; q_headers := base_headers cfg (const "contentTypeHeader", const "contentTypeHeaderValue") (match t with TTime z => z | _ => 0%Z end) url; q_body := Some b |} in
  s <- call (TSign true (c_key cfg) (c_keyid cfg) req (Some b)) ;;
  match s with
  | TSigned added =>
      r <- call (TDo {| q_method := "POST"; q_url := url; q_headers := q_headers req ++ added; q_body := Some b |}) ;;
      match r with
      | TResp code txt _ => if is_success code then Ret None else Ret (Some (FStatus true url code txt))
      | TDoErr m => Ret (Some (FDo m))
      | _ => Ret (Some FBroken)
      end
  | TSignErr m => Ret (Some (FSign m))
  | _ => Ret (Some FBroken)
  end.

(* BatchDeliver: one Deliver per recipient (goroutines in the code: any completion order), then the failures *)
Fixpoint deliver_all (cfg : tcfg) (b : string) (rcpts : list string) : tprog (list (option failure)) :=
  match rcpts with
  | [] => Ret []
  | r :: rest => o <- deliver cfg b r ;; os <- deliver_all cfg b rest ;; Ret (o :: os)
  end.
Definition failures (outs : list (option failure)) : list failure := flat_map (fun o => match o with Some f => [f] | None => [] end) outs.
Definition batch_result (outs : list (option failure)) : option (list failure) :=
  match failures outs with [] => None | fs => Some fs end.
Definition batch_deliver (cfg : tcfg) (b : string) (rcpts : list string) : tprog (option (list failure)) :=
  outs <- deliver_all cfg b rcpts ;; Ret (batch_result outs).

(* the message of a failure, as the code prints it *)
Fixpoint nat_digits (fuel n : nat) (acc : string) : string :=
  match fuel with
  | O => acc
  | S f => let acc' := String (Ascii.ascii_of_nat (48 + n mod 10)) acc in if Nat.ltb n 10 then acc' else nat_digits f (n / 10) acc'
  end.
Definition nat_str (n : nat) : string := nat_digits 6 n "".
Definition failure_message (f : failure) : string :=
  match f with
  | FSign m | FDo m => m
  | FStatus post url code txt => (if post then "POST" else "GET") ++ " request to " ++ url ++ " failed (" ++ nat_str code ++ "): " ++ txt
  | FBroken => "?"
  end.
