(* Specification functions computed from an ontology: closures of subClassOf,
   disjointness, the properties a type must expose, the kinds a property must
   accept.  Everything here is executable; Proofs/SpecProofs.v relates the
   fuelled closures to Relation_Operators.clos_trans. *)
From Coq Require Import String List Bool Arith.
From Verif Require Import Base.ListX Vocab.Ontology.
Import ListNotations.
Open Scope string_scope.

Section WithOntology.
  Variable ont : ontology.

  Definition class_names : list string := map c_name (classes ont).

  Definition parents_of (a : string) : list string :=
    match find_row c_name a (classes ont) with Some c => c_parents c | None => [] end.

  Definition declared_disjoint (a : string) : list string :=
    match find_row c_name a (classes ont) with Some c => c_disjoint c | None => [] end.

  (* all strict ancestors reachable by at most n subClassOf steps *)
  Fixpoint anc (n : nat) (a : string) : list string :=
    match n with
    | 0 => []
    | S n' => flat_map (fun p => p :: anc n' p) (parents_of a)
    end.

  Definition ancestors (a : string) : list string := anc (length (classes ont)) a.
  Definition anc_or_self (a : string) : list string := a :: ancestors a.

  Definition descendants (a : string) : list string :=
    filter (fun b => mem a (ancestors b)) class_names.

  (* some ancestor-or-self of a is declared disjoint, in either direction,
     with some ancestor-or-self of b *)
  Definition disjoint_spec (a b : string) : bool :=
    existsb (fun a' => existsb (fun b' =>
       mem b' (declared_disjoint a') || mem a' (declared_disjoint b')) (anc_or_self b)) (anc_or_self a).

  (* saturation: the fuelled closure is closed under one more step *)
  Definition saturated : bool :=
    forallb (fun a =>
       subset (parents_of a) (ancestors a) &&
       forallb (fun b => subset (parents_of b) (ancestors a)) (ancestors a)) class_names.

  (* ---- properties of a type ---- *)
  Definition has_domain (p : oprop_row) (a : string) : bool :=
    existsb (fun d => mem d (anc_or_self a)) (o_domain p).
  Definition withheld (p : oprop_row) (a : string) : bool :=
    existsb (fun w => mem w (anc_or_self a)) (o_without p).
  Definition is_typeless (a : string) : bool :=
    match find_row c_name a (classes ont) with Some c => c_typeless c | None => false end.

  Definition props_of_type (a : string) : list string :=
    map o_name (filter (fun p => has_domain p a && negb (withheld p a)) (oprops ont))
      ++ ["id"] ++ (if is_typeless a then [] else ["type"]).

  (* ---- kinds of a property ---- *)
  Definition is_lit_kind (k : string) : bool := prefix "@" k.
  Definition kinds_of_range (r : list string) : list string :=
    flat_map (fun k => if is_lit_kind k then [k] else k :: descendants k) r.
End WithOntology.
