(* The ontology as read (independently of astool) from astool/*.jsonld. *)
From Coq Require Import String List.
Import ListNotations.

Record class_row := {
  c_name : string;
  c_vocab : string;
  c_parents : list string;    (* subClassOf *)
  c_disjoint : list string;   (* declared disjointWith *)
  c_typeless : bool
}.

Record oprop_row := {
  o_name : string;
  o_vocab : string;
  o_domain : list string;
  o_range : list string;      (* type names, or "@kind" for literal kinds *)
  o_functional : bool;
  o_without : list string;    (* types the property is withheld from *)
  o_natural : bool            (* rdf:langString in range *)
}.

Record ontology := { classes : list class_row; oprops : list oprop_row }.
