(* Record types of the tables the translator reads out of /repo/streams. *)
From Coq Require Import String List.
Import ListNotations.

Record type_row := {
  t_name : string;            (* GetTypeName literal *)
  t_vocab : string;           (* impl/<dir> *)
  t_vocab_uri : string;       (* aliasMap key used by Deserialize<T> *)
  t_typeless : bool;          (* no "type" test in Deserialize<T> *)
  t_fields : list string;     (* property names of the struct fields, in order *)
  t_deser : list string;      (* property names in the order Deserialize<T> fills them *)
  t_known : list string;      (* the k == "..." chain that decides "unknown" *)
  t_ser : list string;        (* property names in the order Serialize writes them *)
  t_extends : list string;    (* literal of <T>Extends *)
  t_extended_by : list string;(* literal of <T>IsExtendedBy *)
  t_disjoint : list string    (* literal of <T>IsDisjointWith *)
}.

(* (field, kind, presence flag or "", needs-flag) *)
Definition member_row := (string * string * string * bool)%type.

Record prop_row := {
  p_name : string;
  p_vocab : string;
  p_vocab_uri : string;
  p_functional : bool;
  p_has_map : bool;           (* Deserialize consults m[name+"Map"] *)
  p_map_name : bool;          (* Name() may answer name+"Map" *)
  p_aliased_name : bool;
  p_members : list member_row;
  p_deser : list string;      (* kinds in the order the element deserialiser tries them *)
  p_ser : list string;        (* kinds in the order serialize tests them *)
  p_clear : list string;      (* fields reset by clear() *)
  p_setters_ok : bool         (* every Set<kind> starts with clear() *)
}.

Record branch_row := {
  b_guard_vocab : string;
  b_guard_name : string;
  b_deser : string;
  b_cb : string;
  b_val : string
}.
