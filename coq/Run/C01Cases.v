From Coq Require Import String List Bool Arith ZArith.
From Verif Require Import Base.ListX Base.Json Vocab.Tables Gen.TablesShipped Streams.Codec Streams.CodecInst.
Require Import Run.observed.
Import ListNotations.
Open Scope string_scope.

Definition no_ctx (j : json) : json := jremove "@context" j.
Definition same (a b : json) : bool := jeqb (canon (no_ctx a)) (canon (no_ctx b)).

(* (index, complaint) *)
(* does the document contain a JSON null, or an array directly inside an array? *)
Fixpoint has_null_or_nested (fuel : nat) (j : json) : bool :=
  match fuel with
  | O => false
  | S f => match j with
           | JNull => true
           | JArr l => existsb (fun e => match e with JArr _ => true | _ => has_null_or_nested f e end) l
           | JObj m => existsb (fun kv => has_null_or_nested f (snd kv)) m
           | _ => false
           end
  end.
Definition keys (j : json) : list string := map fst (jfields j).
Definition is_map_spelling (k : string) : option string :=
  let n := String.length k in
  if Nat.ltb 3 n && String.eqb (substring (n - 3) 3 k) "Map" then Some (substring 0 (n - 3) k) else None.

(* the vocabularies an encoded document names in its @context *)
Definition ctx_of (j : json) : list string :=
  match jget "@context" j with
  | Some (JStr s) => [s]
  | Some (JArr l) => flat_map (fun e => match e with JStr s => [s] | JObj m => map fst m | _ => [] end) l
  | Some (JObj m) => map fst m
  | _ => []
  end.
Definition subset (a b : list string) : bool := forallb (fun x => mem x b) a.
Definition judge (c : bool * json * option json * option json) : list string :=
  match c with
  | (canonical, doc, real, real2) =>
      let model := rt_shipped doc in
      (match model, real with
       | Some m, Some r => if same m r then [] else ["model: the codec model returns another document than the implementation"]
       | None, None => []
       | Some _, None => ["model: the model accepts a document the implementation rejects"]
       | None, Some _ => ["model: the model rejects a document the implementation accepts"]
       end) ++
      (match cx_shipped doc, real with
       | Some want, Some r =>
           let got := ctx_of r in
           if has_null_or_nested 12 doc then []       (* a null given for a known property still counts as a use of its vocabulary: outside the statement *)
           else if subset want got && subset got want then []
           else if subset got want then ["context: the encoded document's @context lacks a vocabulary it uses"]
           else ["context: the encoded document's @context names a vocabulary it does not use"]
       | _, _ => []
       end) ++
      (if canonical then
         match real with
         | Some r => if same r doc then [] else ["round trip: a document in canonical form came back changed"]
         | None => ["round trip: a document in canonical form was rejected"]
         end
       else []) ++
      (* nothing is dropped silently: every top-level member comes back, except @context, a null, or a Map spelling that reappears as the plain one *)
      (match real with
       | Some r =>
           flat_map (fun kv =>
             let k := fst kv in
             if String.eqb k "@context" || mem k (keys r) then [] else
             match snd kv with
             | JNull => []
             | _ => match is_map_spelling k with
                    | Some p => if mem p (keys r) && negb (mem p (keys doc)) then [] else [String.append "dropped: member " k]
                    | None => match is_map_spelling (String.append k "Map") with
                              | Some _ => if mem (String.append k "Map") (keys r) then [] else [String.append "dropped: member " k]
                              | None => [String.append "dropped: member " k]
                              end
                    end
             end) (jfields doc)
       | None => []
       end) ++
      (* a second round trip changes nothing *)
      (match real, real2 with
       | Some r, Some r2 => if has_null_or_nested 12 doc || same r r2 then [] else ["idempotence: a second round trip changed the document"]
       | Some _, None => ["idempotence: the re-encoded document is rejected"]
       | _, _ => []
       end)
  end.
Definition c01_bad := Eval vm_compute in
  filter (fun x => match snd x with [] => false | _ => true end) (map (fun p => (fst p, judge (snd p))) (combine (seq 0 (length observed)) observed)).
Definition n_observed := Eval vm_compute in length observed.
Print c01_bad.
Print n_observed.
