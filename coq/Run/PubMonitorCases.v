(* run/<Cxx>: every recorded run replayed against the model and judged by the monitors. *)
From Coq Require Import String List Bool Arith ZArith.
From Verif Require Import Base.ListX Base.Json Base.Free Pub.Events Pub.Replay Pub.Monitors Pub.SideEffect Pub.BaseActor Pub.Util Pub.Value Pub.EffectSpec Pub.Fed Pub.Soc Base.Time Pub.DeliverySpec Pub.CreateSpec Pub.Calls Pub.ForwardSpec.
From Verif Require Import Proofs.FedProofs.
Require Import Run.observed.
Import ListNotations.
Open Scope string_scope.
Open Scope nat_scope.

Section FF.
  Variable St : Type.
  Variable step : St -> ev -> ans -> option St.
  Fixpoint first_fail (s : St) (tr : list (ev * ans)) (pos : nat) : St + nat :=
    match tr with
    | [] => inl s
    | (e, x) :: r => match step s e x with Some s' => first_fail s' r (S pos) | None => inr pos end
    end.
End FF.

Definition ev_id (e : ev) : string :=
  match e with ELock i | EUnlock i => i | EDb op _ => op | _ => "" end.
Definition ev_tag (e : ev) : string :=
  match e with ELock _ => "relock" | EUnlock _ => "unlock-not-held" | EDb _ _ => "db-without-lock" | _ => "?" end.

(* (0 = ok | 1 = violation, tag, id, was the id loaded with Get earlier in the run) ; a leak at the end has tag "leak" *)
Definition lock_verdict (u : run) : nat * string * string * bool :=
  match first_fail held lock_step [] (u_trace u) 0 with
  | inl h => if lock_final h then (0, "", "", false) else (1, "leak", hd "" h, false)
  | inr pos => match nth_error (u_trace u) pos with
               | Some (e, _) => (1, ev_tag e, ev_id e,
                                 (* loaded as a forwarding collection: Get of that id after InboxForwarding's Exists test *)
                                 let fix after_exists (l : list (ev * ans)) (seen : bool) : bool :=
                                   match l with
                                   | [] => false
                                   | (EDb op args, _) :: r =>
                                       if String.eqb op "Exists" then after_exists r true
                                       else if seen && String.eqb op "Get" && match args with [JStr i] => String.eqb i (ev_id e) | _ => false end then true
                                       else after_exists r seen
                                   | _ :: r => after_exists r seen
                                   end in after_exists (firstn pos (u_trace u)) false)
               | None => (1, "?", "", false)
               end
  end.

Definition is_http (u : run) : bool := negb (String.eqb (u_entry u) "send").
Definition needs_block (u : run) : bool := String.eqb (u_entry u) "postinbox".
Definition open_gate (u : run) : gate :=
  (* the ActivityStreams handler takes no authentication (callers are responsible); Send is programmatic *)
  if String.eqb (u_entry u) "handler" || String.eqb (u_entry u) "send" then {| g_auth := true; g_block := true |} else {| g_auth := false; g_block := false |}.

Definition is_ap (u : run) : bool :=
  let r := u_req u in
  if String.eqb (u_entry u) "postinbox" || String.eqb (u_entry u) "postoutbox" then is_ap_post (r_method r) (r_content_type r)
  else if String.eqb (u_entry u) "send" then true else is_ap_get (r_method r) (r_accept r).
Definition disabled (u : run) : bool :=
  (String.eqb (u_entry u) "postinbox" && negb (c_federating (u_cfg u))) || (String.eqb (u_entry u) "postoutbox" && negb (c_social (u_cfg u))).
Definition only_405 (tr : list (ev * ans)) : bool := match tr with [(EWriteHeader 405, _)] => true | _ => false end.

(* C07 on a recorded run *)
Definition gate_verdict (u : run) : nat * string :=
  match first_fail gate (gate_step (needs_block u)) (open_gate u) (u_trace u) 0 with
  | inr pos => (1, "side effect before authentication / block check")
  | inl _ =>
      if negb (is_ap u) then (if negb (u_handled u) && match u_trace u with [] => true | _ => false end then (0, "") else (1, "non-ActivityPub request not passed through untouched"))
      else if disabled u then (if only_405 (u_trace u) && u_handled u then (0, "") else (1, "disabled protocol did not answer exactly 405"))
      else (0, "")
  end.

(* C10 on a recorded run *)
Definition outcome_verdict (u : run) : nat * string :=
  if negb (is_http u) then (0, "") else
  match first_fail wstate write_step w0 (u_trace u) 0 with
  | inr pos => (1, "second status, body before status, or header after status")
  | inl w => if outcome_ok (u_handled u) (u_result u) w then (0, "") else (1, "outcome is none of the three legal final states")
  end.

Definition serve_verdict (u : run) : nat * string :=
  let e := u_entry u in
  if String.eqb e "getinbox" || String.eqb e "getoutbox" || String.eqb e "handler" then
    match first_fail sstate (serve_step e) s0 (u_trace u) 0 with
    | inr pos => (1, match nth_error (u_trace u) pos with
                     | Some (ESetHeader k _, _) => ("header " ++ k)%string
                     | Some (EWriteHeader _, _) => "status"
                     | Some (EWrite _, _) => "body"
                     | _ => "?" end)
    | inl _ => (0, "")
    end
  else (0, "").

Definition hidden_verdict (u : run) : nat * string :=
  match first_fail bool (hidden_step (u_entry u)) false (u_trace u) 0 with
  | inr pos => (1, match nth_error (u_trace u) pos with
                   | Some (EBatchDeliver _ _, _) => "payload handed to the transport carries bto/bcc"
                   | Some (EWrite _, _) => "served body carries bto/bcc"
                   | _ => "?" end)
  | inl _ => (0, "")
  end.

(* C03, last clause ("the hidden recipients still receive the delivery"): every bto / bcc recipient of the posted activity
   - for a client Create under the Social protocol also those of its embedded objects (normalisation), for a bare object its
   own (the wrapping Create copies them) - was resolved for delivery (Database.InboxForActor asked for it) before the hand-over *)
Definition ids_or_nil (p : string) (v : json) : list string := match ids_of p v with Ok l => l | _ => [] end.
Definition hidden_of (v : json) : list string := ids_or_nil "bto" v ++ ids_or_nil "bcc" v.
Definition expected_hidden (u : run) : list string :=
  match (if String.eqb (u_entry u) "send" then Some (u_send u)
         else match r_body (u_req u) with BJson j => match to_type j with Ok v => Some v | _ => None end | BNotJson => None end) with
  | Some v =>
      if is_activity v then
        hidden_of v ++
        (if String.eqb (u_entry u) "postoutbox" && c_social (u_cfg u) && is_or_extends (type_name v) "Create" && negb (mem "Create" (c_soc_other (u_cfg u)))
         then flat_map (fun e => match e_type "object" e with Some o => hidden_of o | None => [] end) (elems0 "object" v) else [])
      else hidden_of v
  | None => []
  end.
Definition reached_verdict (u : run) : nat * string :=
  if negb (String.eqb (u_entry u) "postoutbox" || String.eqb (u_entry u) "send") then (0, "") else
  if negb (existsb (fun p => match p with (EBatchDeliver _ _, AOk) => true | _ => false end) (u_trace u)) then (0, "") else
  let looked := flat_map (fun p => match fst p with EDb op [JStr i] => if String.eqb op "InboxForActor" then [i] else [] | _ => [] end) (u_trace u) in
  if forallb (fun h => is_public h || mem h looked) (expected_hidden u) then (0, "")
  else (1, "a hidden recipient - bto or bcc of the activity, or of an object of the client's Create - was not resolved for delivery: it does not receive the activity").
Definition reached_bad := Eval vm_compute in
  filter (fun x => Nat.eqb (fst (snd x)) 1) (map (fun p => (fst p, reached_verdict (snd p))) (combine (seq 0 (length observed)) observed)).
Definition judged := Eval vm_compute in
  map (fun p => match p with (i, u) => (i, verdict_code (check_run u), lock_verdict u, gate_verdict u, (outcome_verdict u, serve_verdict u, hidden_verdict u)) end)
      (combine (seq 0 (length observed)) observed).
Definition replay_bad := Eval vm_compute in map (fun x => match x with (i, v, _, _, _) => (i, v) end) (filter (fun x => match x with (_, (k, _, _), _, _, _) => negb (Nat.eqb k 0) end) judged).
Definition lock_bad := Eval vm_compute in map (fun x => match x with (i, _, l, _, _) => (i, l) end) (filter (fun x => match x with (_, _, (k, _, _, _), _, _) => negb (Nat.eqb k 0) end) judged).
Definition gate_bad := Eval vm_compute in map (fun x => match x with (i, _, _, g, _) => (i, g) end) (filter (fun x => match x with (_, _, _, (k, _), _) => negb (Nat.eqb k 0) end) judged).
Definition outcome_bad := Eval vm_compute in map (fun x => match x with (i, _, _, _, (o, _, _)) => (i, o) end) (filter (fun x => match x with (_, _, _, _, ((k, _), _, _)) => negb (Nat.eqb k 0) end) judged).
Definition serve_bad := Eval vm_compute in map (fun x => match x with (i, _, _, _, (_, o, _)) => (i, o) end) (filter (fun x => match x with (_, _, _, _, (_, (k, _), _)) => negb (Nat.eqb k 0) end) judged).
Definition hidden_bad := Eval vm_compute in map (fun x => match x with (i, _, _, _, (_, _, o)) => (i, o) end) (filter (fun x => match x with (_, _, _, _, (_, _, (k, _))) => negb (Nat.eqb k 0) end) judged).
(* C02 on a recorded outbox run *)
(* "recipients that cannot be fetched or parsed are skipped without failing the delivery": the request failed although no call
   of the delivery part answered with an error other than an unreachable recipient, every specified id was dereferenced and the
   specification has targets for the graph the trace shows *)
Definition delivery_failed_for_nothing (u : run) : bool :=
  String.eqb (u_result u) "err" &&
  match after_last_create (u_trace u) None with
  | Some (a, rest) =>
      functional rest &&
      forallb (fun p => match p with (EDb _ _, AErr) | (ENewTransport _, AErr) | (ELock _, AErr) | (EUnlock _, AErr) | (EBatchDeliver _ _, AErr) | (EApp _ _, AErr) => false | _ => true end) (u_trace u) &&
      match batches rest with [] => true | _ => false end &&
      match collect_recipients a with
      | Ok addressed =>
          list_eqb (deref_events rest) (derefs_spec (graph_of_trace rest "") addressed) &&
          (* it did not fail at the sender's own actor document (one without inbox fails the delivery: C02's interpretation note) *)
          match self_of_trace rest with
          | Some _ => true
          | None => negb (existsb (fun p => match fst p with EDb op _ => String.eqb op "ActorForOutbox" | _ => false end) rest)
          end &&
          match spec_targets (graph_of_trace rest (match self_of_trace rest with Some self => self | None => "" end)) a with Ok _ => true | _ => false end
      | _ => false
      end
  | None => false
  end.
Definition delivery_verdict (u : run) : nat * string :=
  if String.eqb (u_entry u) "postoutbox" || String.eqb (u_entry u) "send" then
    match delivery_judge (u_trace u)
      (String.eqb (u_result u) "ok" && c_federating (u_cfg u) &&
       (String.eqb (u_entry u) "send" || existsb (fun p => match fst p with EWriteHeader n => Nat.eqb n 201 | _ => false end) (u_trace u))) with
    | (0, _) => if c_federating (u_cfg u) && delivery_failed_for_nothing u then (1, "the delivery failed although every recipient could be resolved or skipped") else (0, "")
    | v => v
    end
  else (0, "").
Definition delivery_all := Eval vm_compute in map (fun p => (fst p, delivery_verdict (snd p))) (combine (seq 0 (length observed)) observed).
Definition delivery_bad := Eval vm_compute in filter (fun x => Nat.eqb (fst (snd x)) 1) delivery_all.
Definition delivery_stats := Eval vm_compute in
  (length (filter (fun x => Nat.eqb (fst (snd x)) 2) delivery_all),
   length (filter (fun u => match batches (u_trace u) with [] => false | _ => true end) observed),
   length (filter (fun u => existsb (fun r => Nat.ltb 1 (length r)) (batches (u_trace u))) observed),
   length (filter (fun u => Nat.ltb 2 (length (deref_events (u_trace u)))) observed)).
(* C05 on a recorded outbox run: the ordering monitor, fresh ids, and the listing after each history *)
Definition first_new_id (tr : list (ev * ans)) : option string :=
  match find_ans (fun e => match e with EDb op _ => String.eqb op "NewID" | _ => false end) tr with Some (AIri i) => Some i | _ => None end.
Definition new_ids (tr : list (ev * ans)) : list string :=
  flat_map (fun p => match p with (EDb op _, AIri i) => if String.eqb op "NewID" then [i] else [] | _ => [] end) tr.
(* once a Database call or Lock failed, nothing more is stored, listed, delivered or answered with 201 *)
Fixpoint continues_after_failure (failed : bool) (tr : list (ev * ans)) : bool :=
  match tr with
  | [] => false
  | (e, x) :: r =>
      let bad := failed && match e, x with
                           | EBatchDeliver _ _, _ => true
                           | EWriteHeader n, _ => Nat.eqb n 201
                           | EDb op _, AOk => String.eqb op "SetOutbox" || String.eqb op "Create" || String.eqb op "Update" || String.eqb op "Delete"
                           | _, _ => false end in
      bad || continues_after_failure (failed || match e, x with EDb _ _, AErr => true | ELock _, AErr => true | _, _ => false end) r
  end.
Definition order_verdict (u : run) : nat * string :=
  if String.eqb (u_entry u) "postoutbox" || String.eqb (u_entry u) "send" then
    if continues_after_failure false (u_trace u) then (1, "stored, listed, delivered or answered 201 after a persistence step failed") else
    match first_fail ostate ord_step o0 (u_trace u) 0 with
    | inr pos => (1, match nth_error (u_trace u) pos with
                     | Some (EDb _ _, _) => "outbox written twice, not for the stored activity, or not with its id at the front"
                     | Some (EBatchDeliver _ _, _) => "delivered before the activity was stored and listed"
                     | Some (ESetHeader _ _, _) => "Location is not the id stored and listed"
                     | Some (EWriteHeader _, _) => "201 without the activity stored and listed"
                     | _ => "?" end)
    | inl s =>
        if String.eqb (u_entry u) "send" && String.eqb (u_result u) "ok" && negb (Nat.eqb (o_set s) 1) then (1, "Send succeeded without listing the activity") else
        (* the id stored and listed is the first id the application generated in this run; embedded objects of a Create got the others *)
        match o_created s, first_new_id (u_trace u) with
        | Some i, Some j => if Nat.eqb (o_set s) 1 && negb (String.eqb i j) then (1, "the activity listed does not carry the fresh id") else (0, "")
        | _, _ => (0, "")
        end
    end
  else (0, "").
(* C05 on a recorded run: wrapping, fresh ids on embedded objects, normalisation and storage of a Social Create *)
Definition posted_value (u : run) : option json :=
  if String.eqb (u_entry u) "send" then Some (u_send u)
  else match r_body (u_req u) with BJson j => match to_type j with Ok v => Some v | _ => None end | BNotJson => None end.
Definition create_verdict (u : run) : nat * string :=
  if negb (String.eqb (u_entry u) "postoutbox" || String.eqb (u_entry u) "send") then (0, "") else
  match find_ans (fun e => match e with EDb op _ => String.eqb op "NewID" | _ => false end) (u_trace u),
        flat_map (fun p => match p with (EDb op [a], AIri _) => if String.eqb op "NewID" then [a] else [] | _ => [] end) (u_trace u),
        posted_value u with
  | Some (AIri aid), before :: _, Some v =>
      let owner := match find_ans (fun e => match e with EDb op _ => String.eqb op "ActorForOutbox" | _ => false end) (u_trace u) with Some (AIri i) => i | _ => "" end in
      if negb (is_activity v) && negb (wrapped_ok v before owner) then (1, "bare object not wrapped in a Create by the outbox owner copying its addressing and published") else
      match after_last_create (u_trace u) None with
      | Some (a, _) =>
          if negb (String.eqb (id_str a) aid) then (0, "") (* the run ended before the activity was stored *) else
          if String.eqb (type_name before) "Create" then
            if negb (list_eqb (map id_str (objs a)) (firstn (length (objs a)) (tl (new_ids (u_trace u))))) then (1, "an embedded object of the Create did not receive its own fresh id") else
            if c_social (u_cfg u) && negb (mem "Create" (c_soc_other (u_cfg u))) then
              if negb (gained before a) then (1, "Create not normalised: recipients / attribution are not the unions over activity and objects") else
              if negb (normalized a) then (1, "Create not normalised: activity recipients differ from the union of the objects'") else
              if negb (forallb (fun o => existsb (fun p => match p with (EDb op [x], AOk) => String.eqb op "Create" && String.eqb (id_str x) (id_str o) && negb (String.eqb (id_str x) aid) | _ => false end) (u_trace u)) (objs a))
              then (1, "an object of the Create was not stored") else (0, "")
            else (0, "")
          else (0, "")
      | None => (0, "")
      end
  | _, _, _ => (0, "")
  end.
Definition create_bad := Eval vm_compute in
  filter (fun x => Nat.eqb (fst (snd x)) 1) (map (fun p => (fst p, create_verdict (snd p))) (combine (seq 0 (length observed)) observed)).
Definition order_bad := Eval vm_compute in
  filter (fun x => Nat.eqb (fst (snd x)) 1) (map (fun p => (fst p, order_verdict (snd p))) (combine (seq 0 (length observed)) observed)).
Definition history_bad := Eval vm_compute in
  filter (fun x => Nat.eqb (fst (snd x)) 1)
    (map (fun p => match snd p with (init, ids, final) =>
                     (fst p, if jsons_eqb final (map JStr (rev ids) ++ init) then (0, "") else (1, "the outbox does not list exactly the returned ids, newest first")) end)
         (combine (seq 0 (length histories)) histories)).
Definition order_stats := Eval vm_compute in
  (length (filter (fun u => existsb (fun p => match fst p with EDb op _ => String.eqb op "SetOutbox" | _ => false end) (u_trace u)) observed),
   length histories, fold_left (fun n h => match h with (_, ids, _) => n + length ids end) histories 0).
(* C16 on a recorded outbox run: every Database.Update the real code issued against the effect functions *)
Record wstate := { w_owns : option bool; w_get : option json; w_liked : option json; w_now : Z; w_idx : nat; w_updates : nat; w_owned : nat }.
Definition is_mod (op : string) : bool := String.eqb op "Create" || String.eqb op "Update" || String.eqb op "Delete" || String.eqb op "SetOutbox" || String.eqb op "SetInbox".
(* returns the first complaint, or the final state *)
Fixpoint eff_walk (ty : string) (a raw : json) (st : wstate) (tr : list (ev * ans)) : string + wstate :=
  match tr with
  | [] => inr st
  | (e, x) :: r =>
      match e with
      | ENow => eff_walk ty a raw {| w_owns := w_owns st; w_get := w_get st; w_liked := w_liked st; w_now := match x with AZ z => z | _ => 0%Z end; w_idx := w_idx st; w_updates := w_updates st; w_owned := w_owned st |} r
      | EDb op args =>
          if String.eqb op "Owns" then
            let b := match x with ABool b => Some b | _ => None end in
            eff_walk ty a raw {| w_owns := b; w_get := None; w_liked := w_liked st; w_now := w_now st; w_idx := w_idx st; w_updates := w_updates st;
                                 w_owned := w_owned st + match b with Some true => 1 | _ => 0 end |} r
          else if String.eqb op "Get" then
            eff_walk ty a raw {| w_owns := w_owns st; w_get := match x with AJson j => Some j | _ => None end; w_liked := w_liked st; w_now := w_now st; w_idx := w_idx st; w_updates := w_updates st; w_owned := w_owned st |} r
          else if String.eqb op "Liked" then
            eff_walk ty a raw {| w_owns := w_owns st; w_get := w_get st; w_liked := match x with AJson j => Some j | _ => None end; w_now := w_now st; w_idx := w_idx st; w_updates := w_updates st; w_owned := w_owned st |} r
          else if String.eqb op "Update" then
            match args with
            | [v] =>
                let want : option json :=
                  if String.eqb ty "Update" then
                    match w_get st, e_type "object" (nth (w_idx st) (elems0 "object" a) JNull) with
                    | Some t, Some supplied =>
                        match update_spec t supplied (match jget "object" raw with Some (JArr l) => nth (w_idx st) l JNull | Some y => if Nat.eqb (w_idx st) 0 then y else JNull | None => JNull end) with
                        | Ok n => Some n | _ => None end
                    | _, _ => None end
                  else if String.eqb ty "Delete" then
                    match w_get st, ids_of "object" a with
                    | Some t, Ok ids => Some (to_tombstone t (nth (w_idx st) ids "") (rfc3339_utc (w_now st)))
                    | _, _ => None end
                  else if String.eqb ty "Add" || String.eqb ty "Remove" then
                    match w_owns st, w_get st, ids_of "object" a with
                    | Some true, Some tp, Ok ids => eff_expected (if String.eqb ty "Add" then KAdd ids else KRemove ids) tp
                    | _, _, _ => None end
                  else if String.eqb ty "Like" then
                    match w_liked st, to_ids "object" (elems0 "object" a) with
                    | Some l, Ok ids => Some (like_spec ids l)
                    | _, _ => None end
                  else None in
                match want with
                | Some w => if jeqb v (canon w) then
                              eff_walk ty a raw {| w_owns := None; w_get := None; w_liked := w_liked st; w_now := w_now st; w_idx := S (w_idx st); w_updates := S (w_updates st); w_owned := w_owned st |} r
                            else inl "a stored value was updated to something other than the documented result"
                | None => inl (if (String.eqb ty "Add" || String.eqb ty "Remove") && match w_owns st with Some true => false | _ => true end
                               then "a target collection this server does not own was modified" else "an update the documented effect does not include")
                end
            | _ => inl "?"
            end
          else if String.eqb op "Delete" then inl "a stored value was deleted"
          else eff_walk ty a raw st r
      | _ => eff_walk ty a raw st r
      end
  end.
Definition c16_type (ty : string) : bool := mem ty ["Update"; "Delete"; "Add"; "Remove"; "Like"; "Block"].
Definition effects_verdict (u : run) : nat * string :=
  if negb (String.eqb (u_entry u) "postoutbox" || String.eqb (u_entry u) "send") then (0, "") else
  match posted_value u with
  | Some v =>
      let ty := type_name v in
      if negb (c16_type ty && c_social (u_cfg u) && negb (mem ty (c_soc_other (u_cfg u)))) then (0, "") else
      let raw := match r_body (u_req u) with BJson j => if String.eqb (u_entry u) "send" then v else j | BNotJson => v end in
      let accepted := String.eqb (u_result u) "ok" && (String.eqb (u_entry u) "send" || existsb (fun p => match fst p with EWriteHeader n => Nat.eqb n 201 | _ => false end) (u_trace u)) in
      let missing := object_required v || ((String.eqb ty "Add" || String.eqb ty "Remove") && target_required v) in
      if missing then
        if existsb (fun p => match fst p with EDb op _ => is_mod op | EBatchDeliver _ _ => true | _ => false end) (u_trace u) then (1, "an activity lacking its object / target changed or sent something")
        else if accepted then (1, "an activity lacking its object / target was accepted")
        else if String.eqb (u_entry u) "postoutbox" && String.eqb (u_result u) "ok" && existsb (fun p => match fst p with EApp n _ => String.eqb n "SocialCallbacks" | _ => false end) (u_trace u)
                && negb (existsb (fun p => match fst p with EWriteHeader n => Nat.eqb n 400 | _ => false end) (u_trace u)) then (1, "an activity lacking its object / target was not answered 400")
        else (0, "")
      else
      match eff_walk ty v raw {| w_owns := None; w_get := None; w_liked := None; w_now := 0%Z; w_idx := 0; w_updates := 0; w_owned := 0 |} (u_trace u) with
      | inl msg => (1, msg)
      | inr st =>
          if String.eqb ty "Block" && existsb (fun p => match fst p with EBatchDeliver _ _ => true | _ => false end) (u_trace u) then (1, "a Block was delivered") else
          if accepted then
            let want := if String.eqb ty "Update" || String.eqb ty "Delete" then length (match ids_of "object" v with Ok l => l | _ => [] end)
                        else if String.eqb ty "Add" || String.eqb ty "Remove" then w_owned st
                        else if String.eqb ty "Like" then 1 else 0 in
            if Nat.eqb (w_updates st) want then (0, "") else (1, "accepted, but not every named value / owned target was updated")
          else (0, "")
      end
  | None => (0, "")
  end.
Definition effects_bad := Eval vm_compute in
  filter (fun x => Nat.eqb (fst (snd x)) 1) (map (fun p => (fst p, effects_verdict (snd p))) (combine (seq 0 (length observed)) observed)).
Definition effects_stats := Eval vm_compute in
  (length (filter (fun u => match posted_value u with Some v => c16_type (type_name v) | None => false end) observed),
   length (filter (fun u => existsb (fun p => match fst p with EDb op _ => String.eqb op "Update" | _ => false end) (u_trace u)) observed)).
(* where the implementation's OBSERVABLE behaviour leaves the model's: stored values, deliveries, application callbacks, responses *)
Definition observable (e : ev) : bool :=
  match e with
  | EDb op _ => is_mod op
  | EBatchDeliver _ _ | EApp _ _ | EWriteHeader _ | ESetHeader _ _ | EWrite _ => true
  | _ => false
  end.
Definition ev_summary (e : ev) : string :=
  match e with
  | EDb op [a] => (op ++ " " ++ match a with JStr s => s | _ => id_str a end)%string
  | EDb op _ => op
  | EBatchDeliver p r => ("BatchDeliver " ++ type_name p ++ " to " ++ String.concat "," r)%string
  | EApp n _ => ("callback " ++ n)%string
  | EWriteHeader n => "status"
  | ESetHeader k v => ("header " ++ k)%string
  | EWrite _ => "body"
  | ELock i => ("Lock " ++ i)%string | EUnlock i => ("Unlock " ++ i)%string
  | ENewTransport _ => "NewTransport" | EDeref i => ("Dereference " ++ i)%string | ENow => "Now"
  end.
Definition diverge_verdict (u : run) : nat * string :=
  match check_run u with
  | VAgree => (0, "")
  | VResult h r => (1, ("result: specification " ++ r ++ ", implementation " ++ u_result u)%string)
  | VMismatch pos e =>
      match nth_error (u_trace u) pos with
      | Some (e', _) => if observable e || observable e' then (1, ("specification: " ++ ev_summary e ++ "; implementation: " ++ ev_summary e')%string) else (0, "")
      | None => if String.eqb (u_result u) "panic" then (1, ("the implementation panics where the specification continues with " ++ ev_summary e)%string)
                else if observable e then (1, ("specification: " ++ ev_summary e ++ "; implementation: stops")%string) else (0, "")
      end
  | VExtra pos =>
      if existsb (fun p => observable (fst p)) (skipn pos (u_trace u)) then (1, "the implementation goes on where the specification has finished") else (0, "")
  end.
(* C10, "with the documented status": where the response of the implementation - a status, a header, the body, or the
   (handled, error) result - leaves the model's, whose outcomes the theorems of C10 characterise *)
Definition is_response (e : ev) : bool := match e with EWriteHeader _ | ESetHeader _ _ | EWrite _ => true | _ => false end.
Definition resp_summary (e : ev) : string :=
  match e with
  | EWriteHeader n => if Nat.eqb n 200 then "status 200" else if Nat.eqb n 201 then "status 201" else if Nat.eqb n 400 then "status 400"
                      else if Nat.eqb n 403 then "status 403" else if Nat.eqb n 404 then "status 404" else if Nat.eqb n 405 then "status 405"
                      else if Nat.eqb n 410 then "status 410" else "another status"
  | _ => ev_summary e
  end.
Definition status_verdict (u : run) : nat * string :=
  if negb (is_http u) then (0, "") else
  match check_run u with
  | VAgree => (0, "")
  | VResult h r => (1, ("documented outcome: " ++ (if h then "handled, " else "not handled, ") ++ r ++ "; implementation: " ++ (if u_handled u then "handled, " else "not handled, ") ++ u_result u)%string)
  | VMismatch pos e =>
      match nth_error (u_trace u) pos with
      | Some (e', _) => if is_response e || is_response e' then (1, ("documented: " ++ resp_summary e ++ "; implementation: " ++ resp_summary e')%string) else (0, "")
      | None => if is_response e then (1, ("documented: " ++ resp_summary e ++ "; implementation: returns without it")%string) else (0, "")
      end
  | VExtra pos =>
      match find (fun p => is_response (fst p)) (skipn pos (u_trace u)) with
      | Some (e', _) => (1, ("documented: nothing further written; implementation: " ++ resp_summary e')%string)
      | None => (0, "")
      end
  end.
Definition status_bad := Eval vm_compute in
  filter (fun x => Nat.eqb (fst (snd x)) 1) (map (fun p => (fst p, status_verdict (snd p))) (combine (seq 0 (length observed)) observed)).
Definition diverge_bad := Eval vm_compute in
  filter (fun x => Nat.eqb (fst (snd x)) 1) (map (fun p => (fst p, diverge_verdict (snd p))) (combine (seq 0 (length observed)) observed)).
(* C04 on a recorded inbox run: the part of the trace in which the default callback ran *)
Fixpoint drop_until (f : ev -> bool) (tr : list (ev * ans)) : option (list (ev * ans)) :=
  match tr with [] => None | (e, x) :: r => if f e then Some r else drop_until f r end.
Fixpoint take_until (f : ev -> bool) (tr : list (ev * ans)) : list (ev * ans) :=
  match tr with [] => [] | (e, x) :: r => if f e then [] else (e, x) :: take_until f r end.
Definition callback_segment (tr : list (ev * ans)) : option (list (ev * ans)) :=
  match drop_until (fun e => match e with EApp n _ => String.eqb n "FederatingCallbacks" | _ => false end) tr with
  | Some r => Some (take_until (fun e => match e with EDb op _ => String.eqb op "Exists" | EWriteHeader _ => true | _ => false end) r)
  | None => None
  end.
Definition inbox_activity (u : run) : option json :=
  match r_body (u_req u) with BJson j => match to_type j with Ok v => Some v | _ => None end | BNotJson => None end.
Definition mod_events (seg : list (ev * ans)) : list (string * json) :=
  flat_map (fun p => match fst p with EDb op [a] => if String.eqb op "Create" || String.eqb op "Update" || String.eqb op "Delete" then [(op, a)] else [] | _ => [] end) seg.
Definition is_wrapped_app (e : ev) : bool := match e with EApp n _ => String.prefix "Wrapped:" n | _ => false end.
Definition fed_verdict (u : run) : nat * string :=
  if negb (String.eqb (u_entry u) "postinbox") then (0, "") else
  match inbox_activity u, callback_segment (u_trace u) with
  | Some a, Some seg =>
      let ty := type_name a in
      let ok200 := existsb (fun p => match fst p with EWriteHeader n => Nat.eqb n 200 | _ => false end) (u_trace u) in
      if mem ty (c_fed_other (u_cfg u)) then
        (if forallb (fun p => quiet_inbox (fst p)) seg then (0, "") else (1, "an 'other' callback did not replace the default effect"))
      else if negb (mem ty fed_defaults) then (0, "") else
      (* the wrapped callback comes last *)
      let wl : nat * string := match drop_until is_wrapped_app seg with
      | Some after => if existsb (fun p => observable (fst p)) after then (1, "something was changed or sent after the wrapped application callback") else (0, "")
      | None => (0, "")
      end in if Nat.eqb (fst wl) 1 then wl else
      if String.eqb ty "Like" || String.eqb ty "Announce" then
        match get_id a with
        | Ok id => match first_fail estate (own_step (if String.eqb ty "Like" then "likes" else "shares") id) e0 seg 0 with
                   | inr _ => (1, "an object this server does not own was modified, or an owned one not to the documented value")
                   | inl _ => (0, "") end
        | _ => (0, "") end
      else if String.eqb ty "Add" || String.eqb ty "Remove" then
        match ids_of "object" a with
        | Ok ids => match first_fail estate (eff_step (if String.eqb ty "Add" then KAdd ids else KRemove ids)) e0 seg 0 with
                    | inr _ => (1, "a target collection this server does not own was modified, or an owned one not to the documented value")
                    | inl _ => (0, "") end
        | _ => (0, "") end
      else if String.eqb ty "Create" || String.eqb ty "Update" || String.eqb ty "Delete" then
        let want := match ids_of "object" a with Ok l => l | _ => [] end in
        let got := map (fun t => match snd t with JStr s => s | v => id_str v end) (mod_events seg) in
        if negb (forallb (fun t => String.eqb (fst t) ty) (mod_events seg)) then (1, "an operation other than the activity's own was applied") else
        if negb (is_prefix got want) then (1, "stored / removed something other than the named objects") else
        if ok200 && negb (list_eqb got want) then (1, "accepted, but not every named object was stored / removed") else (0, "")
      else if String.eqb ty "Follow" then
        if Nat.eqb (c_on_follow (u_cfg u)) 0 && negb (forallb (fun p => no_change_no_send (fst p)) seg) then (1, "OnFollow = do nothing, yet something was changed or sent") else
        if Nat.eqb (c_on_follow (u_cfg u)) 2 && negb (forallb (fun p => no_update (fst p)) seg) then (1, "OnFollow = reject, yet something was updated") else (0, "")
      else (0, "")
  | _, _ => (0, "")
  end.
Definition fed_bad := Eval vm_compute in
  filter (fun x => Nat.eqb (fst (snd x)) 1) (map (fun p => (fst p, fed_verdict (snd p))) (combine (seq 0 (length observed)) observed)).

(* C06 on a recorded inbox run *)
Definition actors_within_b (aa : list string) (t : json) : bool :=
  match elems "actor" t with Some l => match to_ids "actor" l with Ok ids => all_in ids aa | _ => false end | None => false end.
Definition authority_verdict (u : run) : nat * string :=
  if negb (String.eqb (u_entry u) "postinbox") then (0, "") else
  match inbox_activity u with
  | None => (0, "")
  | Some a =>
      let ty := type_name a in
      let ok200 := existsb (fun p => match fst p with EWriteHeader n => Nat.eqb n 200 | _ => false end) (u_trace u) in
      (* the block check *)
      let blocked_args := flat_map (fun p => match fst p with EApp n args => if String.eqb n "Blocked" then [args] else [] | _ => [] end) (u_trace u) in
      let want := match elems "actor" a with Some l => match actor_iris l with Ok ids => Some [JArr (map JStr ids)] | _ => None end | None => None end in
      if negb (forallb (fun args => match want with Some w => jsons_eqb args w | None => false end) blocked_args) then (1, "the block check was not asked about the id of every actor") else
      match callback_segment (u_trace u) with
      | None => (0, "")
      | Some seg =>
          if mem ty (c_fed_other (u_cfg u)) then (0, "") else
          if (String.eqb ty "Update" || String.eqb ty "Delete") then
            match must_origin_match a with
            | Ok _ => (0, "")
            | _ => if negb (object_required a) && (existsb (fun p => match fst p with EDb op _ => is_mod op | EBatchDeliver _ _ => true | _ => false end) seg || ok200)
                   then (1, "applied although an object id does not have the host of the activity id") else (0, "")
            end
          else if String.eqb ty "Accept" then
            match elems "actor" a with
            | Some al => match first_fail astate (acc_step al) a0 (skipn 0 (match drop_until (fun e => match e with EApp n _ => String.eqb n "FederatingCallbacks" | _ => false end) (u_trace u) with Some r => take_until (fun e => match e with EDb op _ => String.eqb op "Exists" | EWriteHeader _ => true | _ => false end) r | None => [] end)) 0 with
                         | inr _ => (1, "following updated without a stored Follow by this actor naming every accepting actor")
                         | inl _ => (0, "") end
            | None => (0, "")
            end
          else if String.eqb ty "Undo" then
            if ok200 && negb (object_required a) then
              match elems "actor" a with
              | Some al => match to_ids "actor" al with
                           | Ok aa => match run_monitor seen_step [] seg with
                                      | Some seen => if Nat.eqb (length seen) (length (elems0 "object" a)) && forallb (actors_within_b aa) seen then (0, "")
                                                     else (1, "Undo accepted although an actor of an undone activity is not an actor of the Undo")
                                      | None => (0, "") end
                           | _ => (1, "Undo accepted without readable actors") end
              | None => (1, "Undo accepted without actors")
              end
            else (0, "")
          else (0, "")
      end
  end.
Definition authority_bad := Eval vm_compute in
  filter (fun x => Nat.eqb (fst (snd x)) 1) (map (fun p => (fst p, authority_verdict (snd p))) (combine (seq 0 (length observed)) observed)).
(* C17 on a recorded inbox run: the forwarding part of the trace (from the Exists test on) judged by fwd_step *)
Fixpoint from_exists (tr : list (ev * ans)) : list (ev * ans) :=
  match tr with
  | [] => []
  | (EDb op args, x) :: r => if String.eqb op "Exists" then (EDb op args, x) :: r else from_exists r
  | _ :: r => from_exists r
  end.
Fixpoint drop_until_filter (tr : list (ev * ans)) : list (ev * ans) :=
  match tr with [] => [] | (EApp n _, _) :: r => if String.eqb n "FilterForwarding" then r else drop_until_filter r | _ :: r => drop_until_filter r end.
Definition forward_verdict (u : run) : nat * string :=
  if negb (String.eqb (u_entry u) "postinbox") then (0, "") else
  match inbox_activity u with
  | None => (0, "")
  | Some a =>
      let seg := take_until (fun e => match e with EWriteHeader _ => true | _ => false end) (from_exists (u_trace u)) in
      let before := take_until (fun e => match e with EDb op _ => String.eqb op "Exists" | _ => false end) (u_trace u) in
      let ok200 := existsb (fun p => match fst p with EWriteHeader n => Nat.eqb n 200 | _ => false end) (u_trace u) in
      match first_fail fstate (fwd_step a) f0 seg 0 with
      | inr pos => (1, match nth_error seg pos with
                       | Some (EBatchDeliver _ _, _) => "forwarded without its conditions, twice, changed, or to other members than the filtered collections'"
                       | Some (EDb _ _, _) => "the activity was recorded twice, changed, or although already seen"
                       | Some (EApp _ _, _) => "the filter / value search was consulted out of turn or with other arguments"
                       | _ => "?" end)
      | inl s =>
          if ok200 then
            if match f_exists s with Some false => negb (Nat.eqb (f_created s) 1) | _ => false end then (1, "not recorded as seen") else
            if f_owned_value s && match f_filter s with Some _ => negb (f_sent s) | None => true end then (1, "its three conditions held, but the activity was not forwarded") else
            (* the statement asks for the inboxes of the members: no member was resolved (no Dereference, no InboxForActor) before the hand-over *)
            if f_sent s && existsb (fun p => match fst p with EBatchDeliver _ (_ :: _) => true | _ => false end) seg
               && negb (existsb (fun p => match fst p with EDeref _ => true | EDb op _ => String.eqb op "InboxForActor" | _ => false end)
                                (match f_filter s with Some _ => drop_until_filter seg | None => [] end))
            then (1, "member ids handed to the transport instead of the members' inboxes") else (0, "")
          else (0, "")
      end
  end.
Definition forward_bad := Eval vm_compute in
  filter (fun x => Nat.eqb (fst (snd x)) 1) (map (fun p => (fst p, forward_verdict (snd p))) (combine (seq 0 (length observed)) observed)).
(* repeated deliveries of one activity: forwarded at most once, recorded exactly once over the whole sequence *)
Definition count_fwd (u : run) : nat := length (filter (fun p => match fst p with EBatchDeliver _ _ => true | _ => false end) (from_exists (u_trace u))).
Definition count_rec (u : run) : nat := length (filter (fun p => match p with (EDb op _, AOk) => String.eqb op "Create" | _ => false end) (from_exists (u_trace u))).
Definition sequence_bad := Eval vm_compute in
  filter (fun x => Nat.eqb (fst (snd x)) 1)
    (map (fun p => let us := flat_map (fun i => match nth_error observed i with Some u => [u] | None => [] end) (snd p) in
                   (hd 0 (snd p), if Nat.ltb 1 (fold_left (fun n u => n + count_fwd u) us 0) then (1, "one activity was forwarded more than once over repeated deliveries")
                             else if Nat.ltb 1 (fold_left (fun n u => n + count_rec u) us 0) then (1, "one activity was recorded as seen more than once over repeated deliveries")
                             else (0, "")))
         (combine (seq 0 (length sequences)) sequences)).
(* C17, both directions, on the WORLD the run started from (what was owned, stored and dereferenceable; the depth limit):
   the specification's must_forward (Pub/ForwardSpec.v; C17_iff) against what the implementation did *)
Definition world_of (x : list string * list (string * json) * list (string * ans) * nat) (a : json) : fworld :=
  let '(owned, store, remote, depth) := x in
  {| fw_owns := fun i => mem i owned;
     fw_deref := fun u => match assoc u remote with Some (AJson j) => DDoc j | Some ANotJson => DNotJson | _ => DFailed end;
     fw_get := fun i => match assoc i store with Some j => j | None => JNull end;
     fw_seen := match assoc (id_str a) store with Some _ => true | None => false end;
     fw_depth := depth; fw_filter := fun _ => [] |}.
Definition iff_verdict (p : nat * (list string * list (string * json) * list (string * ans) * nat)) : nat * string :=
  match nth_error observed (fst p) with
  | Some u =>
      if negb (String.eqb (u_entry u) "postinbox") then (0, "") else
      match inbox_activity u with
      | Some a =>
          let ok200 := existsb (fun q => match fst q with EWriteHeader n => Nat.eqb n 200 | _ => false end) (u_trace u) in
          if negb ok200 then (0, "") else
          let forwarded := existsb (fun q => match fst q with EBatchDeliver _ _ => true | _ => false end) (from_exists (u_trace u)) in
          let want := must_forward (world_of (snd p) a) a in
          (* every owned collection addressed in this world is offered to the application's filter (its members are who the
             activity is forwarded to): ids that differ only in a fragment, the case of a letter, ... are different collections *)
          let offered := flat_map (fun q => match fst q with
                                            | EApp n (JArr l :: _) => if String.eqb n "FilterForwarding" then flat_map (fun e => match e with JStr s => [s] | _ => [] end) l else []
                                            | _ => [] end) (u_trace u) in
          let owned_addr := match addressed a with Ok l => owned_collections (world_of (snd p) a) l | _ => [] end in
          if want && forwarded && negb (forallb (fun c => mem c offered) owned_addr)
          then (1, "an owned collection addressed by the activity was not offered to the forwarding filter: its members do not receive the activity")
          else
          if Bool.eqb want forwarded then (0, "")
          else if want then (1, "not seen before, an owned collection addressed and an owned value within the depth limit in this world - but the activity was not forwarded")
          else (1, "forwarded although in this world it was seen before, no owned collection is addressed or no owned value lies within the depth limit")
      | None => (0, "")
      end
  | None => (0, "")
  end.
Definition iff_bad := Eval vm_compute in
  filter (fun x => Nat.eqb (fst (snd x)) 1) (map (fun p => (fst p, iff_verdict p)) worlds).
Definition iff_stats := Eval vm_compute in
  (length worlds, length (filter (fun p => match nth_error observed (fst p) with
                                           | Some u => match inbox_activity u with Some a => must_forward (world_of (snd p) a) a | None => false end
                                           | None => false end) worlds)).
(* C16 / C04, Add and Remove against the WORLD the run started from: every target collection this server owns (and holds as a
   collection) was updated - also those after a target it does not own *)
Definition is_col_json (t : json) : bool :=
  (is_or_extends (type_name t) "OrderedCollection" && vhas t "orderedItems")
  || (negb (is_or_extends (type_name t) "OrderedCollection") && is_or_extends (type_name t) "Collection" && vhas t "items").
Definition targets_verdict (p : nat * (list string * list (string * json) * list (string * ans) * nat)) : nat * string :=
  match nth_error observed (fst p) with
  | Some u =>
      let '(owned, store, _, _) := snd p in
      match (if String.eqb (u_entry u) "send" then Some (u_send u)
             else match r_body (u_req u) with BJson j => match to_type j with Ok v => Some v | _ => None end | BNotJson => None end) with
      | Some v =>
          let ty := type_name v in
          if negb (String.eqb ty "Add" || String.eqb ty "Remove") then (0, "") else
          let inbox_side := String.eqb (u_entry u) "postinbox" in
          let overridden := mem ty (if inbox_side then c_fed_other (u_cfg u) else c_soc_other (u_cfg u)) in
          let ran := existsb (fun q => match fst q with EApp n _ => String.eqb n (if inbox_side then "FederatingCallbacks" else "SocialCallbacks") | _ => false end) (u_trace u) in
          let accepted := if String.eqb (u_entry u) "send" then String.eqb (u_result u) "ok"
                          else existsb (fun q => match fst q with EWriteHeader n => Nat.eqb n (if inbox_side then 200 else 201) | _ => false end) (u_trace u) in
          if overridden || negb ran || negb accepted then (0, "") else
          let want := filter (fun t => mem t owned && match assoc t store with Some c => is_col_json c | None => false end) (ids_or_nil "target" v) in
          let updated := flat_map (fun q => match q with (EDb op [a], AOk) => if String.eqb op "Update" then [id_str a] else [] | _ => [] end) (u_trace u) in
          if forallb (fun t => mem t updated) want then (0, "")
          else (1, "accepted, but a target collection this server owns was not updated")
      | None => (0, "")
      end
  | None => (0, "")
  end.
Definition targets_bad := Eval vm_compute in
  filter (fun x => Nat.eqb (fst (snd x)) 1) (map (fun p => (fst p, targets_verdict p)) worlds).
Definition forward_stats := Eval vm_compute in
  (length (filter (fun u => Nat.ltb 0 (count_fwd u)) observed), length sequences,
   length (filter (fun u => existsb (fun p => match fst p with EApp n _ => String.eqb n "FilterForwarding" | _ => false end) (u_trace u)) observed)).
Definition n_observed := Eval vm_compute in length observed.
Print replay_bad.
Print lock_bad.
Print gate_bad.
Print outcome_bad.
Print serve_bad.
Print hidden_bad.
Print reached_bad.
Print delivery_bad.
Print delivery_stats.
Print create_bad.
Print order_bad.
Print history_bad.
Print order_stats.
Print effects_bad.
Print effects_stats.
Print fed_bad.
Print forward_bad.
Print iff_bad.
Print targets_bad.
Print iff_stats.
Print sequence_bad.
Print forward_stats.
Print authority_bad.
Print diverge_bad.
Print status_bad.
Print n_observed.
