(* run/C06/urls: net/url against the model's character-level reading of IRIs (Pub/Value.v): has_scheme s = url.Parse accepts s
   and finds a scheme - what makes a string an IRI for pub.ToId and for the decoders; host_of s = the Host it reports - what the
   origin check of federated Update / Delete compares. *)
From Coq Require Import String List Bool.
From Verif Require Import Base.ListX Pub.Value.
Require Import Run.observed_urls.
Import ListNotations.
Open Scope string_scope.
Open Scope list_scope.
Definition url_bad := Eval vm_compute in
  flat_map (fun x => match x with (s, iri, h) =>
     (if Bool.eqb (has_scheme s) iri then [] else [(s, "scheme")]) ++
     (if iri && has_scheme s && negb (String.eqb (host_of s) h) then [(s, "host")] else []) end) observed_urls.
Definition n_urls := Eval vm_compute in length observed_urls.
Print url_bad.
Print n_urls.
