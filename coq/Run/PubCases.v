(* run/<Cxx>: replay of every recorded run against the model. *)
From Coq Require Import String List Bool Arith ZArith.
From Verif Require Import Base.ListX Base.Json Base.Free Pub.Events Pub.Replay.
Require Import Run.observed.
Import ListNotations.
Open Scope string_scope.

Definition verdicts := Eval vm_compute in map (fun u => verdict_code (check_run u)) observed.
Definition disagreements := Eval vm_compute in
  filter (fun p => negb (Nat.eqb (fst (fst (snd p))) 0)) (combine (seq 0 (length verdicts)) verdicts).
Definition n_observed := Eval vm_compute in length observed.
Print disagreements.
Print n_observed.
