(* run/C12: observations of the real decoder (typed accessors inspected by
   reflection) against the model over the translator's tables and against the
   ontology-derived specification. *)
From Coq Require Import String List Bool Arith ZArith.
From Verif Require Import Base.ListX Vocab.Tables Vocab.Ontology Vocab.Spec Streams.TableSpec Streams.Literals.
From Verif Require Import Gen.TablesShipped Gen.OntologyShipped.
Require Import Run.observed.
Import ListNotations.
Open Scope string_scope.
Open Scope list_scope.

Definition O := ont_shipped.
Definition T := types_shipped.
Definition P := props_shipped.
Definition url_ok (s : string) : bool := prefix "https://" s.
Definition typeless := is_typeless O.

(* ---- A ---- *)
Definition a_judged := Eval vm_compute in
  flat_map (fun row => match row with (tn, codes) =>
    match find_row t_name tn T with
    | None => [(tn, "?", false, false)]
    | Some t => map (fun pc => match pc with (p, code) =>
        (tn, p, Nat.eqb code (if mem p (t_fields t) then 0 else 1),
                Nat.eqb code (if mem p (props_of_type O tn) then 0 else 1)) end) (combine obs_props codes)
    end end) obs_type_prop.
Definition a_model_mismatch := Eval vm_compute in map (fun x => match x with (t, p, _, _) => (t, p) end) (filter (fun x => match x with (_, _, m, _) => negb m end) a_judged).
Definition a_spec_mismatch := Eval vm_compute in map (fun x => match x with (t, p, _, _) => (t, p) end) (filter (fun x => match x with (_, _, _, s) => negb s end) a_judged).

(* ---- B ---- *)
Definition sample (k : string) : lit :=
  if String.eqb k "IRI" then LStr "https://example.org/iri" else if String.eqb k "@anyuri" then LStr "https://example.org/any"
  else if String.eqb k "@string" then LStr "plain text" else if String.eqb k "@boolean" then LBool true
  else if String.eqb k "@float" then LNum 1 false else if String.eqb k "@nonnegativeinteger" then LNum 3 true
  else if String.eqb k "@langstring" then LObj None true else if String.eqb k "@datetime" then LStr "2020-02-29T12:00:00Z"
  else if String.eqb k "@duration" then LStr "PT5S" else if String.eqb k "@bcp47" then LStr "en-US"
  else if String.eqb k "@rfc2045" then LStr "text/plain" else if String.eqb k "@rfc5988" then LStr "me"
  else if typeless k then LObj None true else LObj (Some k) true.

Fixpoint index_of (k : string) (l : list string) (i : nat) : nat :=
  match l with [] => 200 | x :: r => if String.eqb x k then i else index_of k r (S i) end.
Definition norm_kind (k : string) : string := if String.eqb k "@anyuri" then "IRI" else k.
Definition code_of_kind (k : string) : nat := if String.eqb k "UNK" then 200 else index_of (norm_kind k) obs_kinds 0.

Definition b_judged := Eval vm_compute in
  flat_map (fun row => match row with (pn, codes) =>
    match find_row p_name pn P with
    | None => [(pn, "?", false, false)]
    | Some p =>
      let spec_kinds := match kinds_spec O pn with Some (ks, _, _) => "IRI" :: ks | None => [] end in
      map (fun kc => match kc with (k, code) =>
        let v := sample k in
        let allowed := map code_of_kind (filter (fun k' => accepts url_ok typeless k' v) spec_kinds) in
        (pn, k, Nat.eqb code (code_of_kind (decode_elem url_ok typeless (p_deser p) v)),
                match allowed with [] => Nat.eqb code 200 | _ => existsb (Nat.eqb code) allowed end) end) (combine obs_kinds codes)
    end end) obs_prop_kind.
Definition b_model_mismatch := Eval vm_compute in map (fun x => match x with (t, p, _, _) => (t, p) end) (filter (fun x => match x with (_, _, m, _) => negb m end) b_judged).
Definition b_spec_mismatch := Eval vm_compute in map (fun x => match x with (t, p, _, _) => (t, p) end) (filter (fun x => match x with (_, _, _, s) => negb s end) b_judged).

(* ---- C, D ---- *)
Definition functional_spec (pn : string) : bool := match kinds_spec O pn with Some (_, fn, _) => fn | None => false end.
Definition natural_spec (pn : string) : bool := match kinds_spec O pn with Some (_, _, nl) => nl | None => false end.
Definition c_mismatch := Eval vm_compute in
  map (fun x => ("array", fst (fst x))) (filter (fun x => match x with (pn, n, known) =>
     negb (if functional_spec pn then Nat.eqb n 1 && negb known else Nat.eqb n 2 && known) end) obs_arrays).
Definition d_mismatch := Eval vm_compute in
  map (fun x => ("map", fst (fst x))) (filter (fun x => match x with (pn, landed, reser) =>
     negb (Bool.eqb landed (natural_spec pn) && reser) end) obs_maps).

(* ---- E ---- *)
Definition e_dt_mismatch := Eval vm_compute in
  map (fun x => ("datetime", fst (fst (fst x)))) (filter (fun x => match x with (s, acc, unix, off) =>
     negb (match parse_datetime s with Some (u, o) => acc && Z.eqb u unix && Z.eqb o off | None => negb acc end) end) obs_datetimes).
Definition e_dur_mismatch := Eval vm_compute in
  map (fun x => ("duration", fst (fst x))) (filter (fun x => match x with (s, code, ns) =>
     negb (match parse_duration s with DOk n => Nat.eqb code 0 && Z.eqb n ns | DErr => Nat.eqb code 1 | DPanic => Nat.eqb code 2 end) end) obs_durations).
Definition lit_mismatch := Eval vm_compute in (c_mismatch ++ d_mismatch ++ e_dt_mismatch ++ e_dur_mismatch).
Definition n_observed := Eval vm_compute in (length a_judged + length b_judged + length obs_arrays + length obs_maps + length obs_datetimes + length obs_durations)%nat.
Print a_model_mismatch.
Print a_spec_mismatch.
Print b_model_mismatch.
Print b_spec_mismatch.
Print lit_mismatch.
Print n_observed.
