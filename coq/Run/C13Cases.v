(* Evaluated in run/C13 on every check: the observations of the real functions
   (Run.observed, written by the harness) against (1) the translator's tables
   (is the table what the code does?) and (2) the ontology-derived spec
   (does the code do what C13 says?).  Depends on model files only, so it still
   runs when a proof is broken. *)
From Coq Require Import String List Bool.
From Verif Require Import Base.ListX Vocab.Tables Vocab.Ontology Vocab.Spec Streams.Hier Gen.TablesShipped Gen.OntologyShipped.
Require Import Run.observed.
Import ListNotations.
Open Scope string_scope.
Open Scope list_scope.

Definition T := types_shipped.
Definition O := ont_shipped.

Definition diff (tag : string) (a b : string) (obs exp : bool) : list (string * string * string * bool) :=
  if Bool.eqb obs exp then [] else [(a, b, tag, obs)].

Definition model_mismatch := Eval vm_compute in
  flat_map (fun x => match x with (a, b, (e, eb, ioe, d, ie)) =>
     diff "extends" a b e (gen_extends T a b) ++ diff "extended_by" a b eb (gen_extended_by T a b) ++
     diff "is_or_extends" a b ioe (gen_is_or_extends T a b) ++ diff "disjoint" a b d (gen_disjoint T a b) ++
     diff "is_extending" a b ie (gen_extends T a b) end) observed.

Definition spec_mismatch := Eval vm_compute in
  flat_map (fun x => match x with (a, b, (e, eb, ioe, d, ie)) =>
     diff "extends" a b e (mem b (ancestors O a)) ++ diff "extended_by" a b eb (mem a (ancestors O b)) ++
     diff "is_or_extends" a b ioe (String.eqb b a || mem a (ancestors O b)) ++ diff "disjoint" a b d (disjoint_spec O a b) ++
     diff "is_extending" a b ie (mem b (ancestors O a)) end) observed.

Definition consistency_mismatch := Eval vm_compute in
  flat_map (fun x => match x with (a, b, (e, eb, ioe, d, ie)) =>
     (* converse, symmetry, irreflexivity judged on the observations themselves *)
     let find a' b' := match find (fun y => match y with (a2, b2, _) => String.eqb a2 a' && String.eqb b2 b' end) observed with
                       | Some (_, _, r) => Some r | None => None end in
     match find b a with
     | Some (e', eb', _, d', _) =>
         diff "converse" a b e eb' ++ diff "disjoint_sym" a b d d' ++
         (if d && (String.eqb a b || e || e') then [(a, b, "disjoint_irrefl", d)] else [])
     | None => [(a, b, "missing_pair", false)]
     end end) observed.

Definition n_observed := Eval vm_compute in length observed.
Definition saturated_now := Eval vm_compute in saturated O.
Print model_mismatch.
Print spec_mismatch.
Print consistency_mismatch.
Print n_observed.
Print saturated_now.
