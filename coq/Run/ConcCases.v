(* run/C08: every explored schedule: each thread's trace replayed against the model, the final store compared with the
   sequential executions, duplicates counted. *)
From Coq Require Import String List Bool Arith ZArith.
From Verif Require Import Base.ListX Base.Json Base.Free Pub.Events Pub.Replay Pub.Monitors Pub.SideEffect Pub.BaseActor Pub.Util.
Require Import Run.observed.
Import ListNotations.
Open Scope string_scope.
Open Scope nat_scope.

Fixpoint coll_eqb (a b : list (string * list string)) : bool :=
  match a, b with
  | [], [] => true
  | (k, v) :: a', (k', v') :: b' => String.eqb k k' && list_eqb v v' && coll_eqb a' b'
  | _, _ => false
  end.
Definition thread_runs (k : conc_case) : list run := flat_map (fun i => match nth_error observed i with Some u => [u] | None => [] end) (k_runs k).
Definition count_ev (f : ev -> bool) (us : list run) : nat := fold_left (fun n u => n + length (filter (fun p => f (fst p)) (u_trace u))) us 0.
Fixpoint after_exists (tr : list (ev * ans)) : list (ev * ans) :=
  match tr with [] => [] | (EDb op args, x) :: r => if String.eqb op "Exists" then r else after_exists r | _ :: r => after_exists r end.

Definition conc_verdict (k : conc_case) : nat * string :=
  let us := thread_runs k in
  if k_deadlock k then (1, "deadlock: every unfinished request waits for a lock another one holds") else
  if negb (existsb (coll_eqb (k_final k)) (k_seq k)) then (1, "a collection does not hold what the requests executed one after another put there") else
  (* each request's own trace keeps the lock discipline (counting variant: finding F2b aside): a request that unlocks a lock it
     does not hold takes away the mutual exclusion the other requests rely on; a Database access outside every lock is not
     protected at all *)
  if existsb (fun u => match run_monitor (lock_step_gen false) [] (u_trace u) with None => true | Some _ => false end) us
  then (1, "a request unlocks a lock it does not hold or reaches the Database outside every lock: the mutual exclusion the other requests rely on is gone") else
  if String.eqb (k_kind k) "refused" then
    (* deliveries of one activity id among the three requests: its side effects are attempted at most once *)
    let ids := map (fun u => match r_body (u_req u) with BJson j => id_str j | BNotJson => "" end) us in
    if Nat.ltb (length (nodup string_dec ids)) (count_ev (fun e => match e with EApp n _ => String.eqb n "FederatingCallbacks" | _ => false end) us)
    then (1, "the side effects of one activity were attempted more than once") else (0, "")
  else
  if String.eqb (k_kind k) "dup" then
    if Nat.ltb 1 (count_ev (fun e => match e with EApp n _ => String.eqb n "FederatingCallbacks" | _ => false end) us) then (1, "the side effects of one activity were attempted more than once") else
    if Nat.ltb 1 (fold_left (fun n u => n + length (filter (fun p => match fst p with EBatchDeliver _ _ => true | _ => false end) (after_exists (u_trace u)))) us 0) then (1, "one activity was forwarded more than once") else (0, "")
  else (0, "").
Definition conc_bad := Eval vm_compute in
  filter (fun x => Nat.eqb (fst (snd x)) 1) (map (fun p => (fst p, conc_verdict (snd p))) (combine (seq 0 (length conc_cases)) conc_cases)).
Definition replay_bad := Eval vm_compute in
  filter (fun x => match snd x with (k, _, _) => negb (Nat.eqb k 0) end) (map (fun p => (fst p, verdict_code (check_run (snd p)))) (combine (seq 0 (length observed)) observed)).
Definition n_observed := Eval vm_compute in length observed.
Definition n_cases := Eval vm_compute in length conc_cases.
Print conc_bad.
Print replay_bad.
Print n_observed.
Print n_cases.
