From Coq Require Import String List Bool Arith ZArith.
From Verif Require Import Base.ListX Transport.Model Transport.Check.
Require Import Run.observed.
Import ListNotations.
Open Scope string_scope.
Definition c19_bad := Eval vm_compute in
  filter (fun x => match snd x with [] => false | _ => true end) (map (fun p => (fst p, check_obs (snd p))) (combine (seq 0 (length observed)) observed)).
Definition n_observed := Eval vm_compute in length observed.
Print c19_bad.
Print n_observed.
