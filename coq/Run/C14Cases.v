(* run/C14: observations of the real resolvers against (1) the model over the
   translator's branch tables and (2) a table-independent oracle: "the first
   callback whose parameter is the interface of the value's own type, nothing
   else; otherwise an unmatched error". *)
From Coq Require Import String List Bool Arith.
From Verif Require Import Base.ListX Vocab.Tables Streams.Resolver Gen.TablesShipped.
Require Import Run.observed.
Import ListNotations.
Open Scope string_scope.
Open Scope list_scope.

Definition enc (o : outcome) : list nat * string :=
  match o with
  | Invoked k => ([k], "cbret")
  | NoCallbackMatch => ([], "ErrNoCallbackMatch")
  | UnhandledType => ([], "ErrUnhandledType")
  | PredicateUnmatched => ([], "ErrPredicateUnmatched")
  | DeserFailed => ([], "other")
  | PredRejected => ([50], "nil")
  | PredPassed (Invoked k) => ([50; k; 51], "cbret")
  | PredPassed NoCallbackMatch => ([50; 51], "ErrNoCallbackMatch")
  | PredPassed UnhandledType => ([50; 51], "ErrUnhandledType")
  | PredPassed _ => ([50; 51], "other")
  end.

Definition to_http (u : string) : string :=
  if prefix "https://" u then "http://" ++ substring 8 (String.length u - 8) u else u.
Definition alias_of (al : list (string * string)) (u : string) : string :=
  match assoc u al with Some a => a | None => match assoc (to_http u) al with Some a => a | None => "" end end.

Definition nats_eqb (a b : list nat) : bool := Nat.eqb (length a) (length b) && forallb (fun p => Nat.eqb (fst p) (snd p)) (combine a b).

Definition pair3 (c : bool) (x : list nat * string) : bool * list nat * string := (c, fst x, snd x).
Definition model_of (kind uri : string) (tss cbs : list string) (pred : string) (pass : bool) (al : list (string * string)) : bool * list nat * string :=
  if existsb (String.eqb "") cbs then (true, [], "")
  else if String.eqb kind "type" then pair3 false (enc (type_resolve type_branches uri (hd "" tss) cbs))
  else if String.eqb kind "pred" then
    (if String.eqb pred "" then (true, [], "")
     else pair3 false (enc (pred_apply pred_branches uri (hd "" tss) pred pass (type_resolve type_branches uri (hd "" tss) cbs))))
  else pair3 false (enc (json_resolve_list json_branches (alias_of al) tss true cbs)).

Definition same (x y : bool * list nat * string) : bool :=
  match x, y with (c1, l1, e1), (c2, l2, e2) => Bool.eqb c1 c2 && nats_eqb l1 l2 && String.eqb e1 e2 end.

(* table-independent oracle for single-typed, un-aliased values *)
Definition own_struct (uri name : string) (json : bool) : option string :=
  match find (fun t => String.eqb (t_name t) name && (json || String.eqb (t_vocab_uri t) uri)) types_shipped with
  | Some t => struct_of type_structs (t_name t)
  | None => None
  end.
Definition is_unmatched_str (e : string) : bool :=
  String.eqb e "ErrNoCallbackMatch" || String.eqb e "ErrUnhandledType" || String.eqb e "ErrPredicateUnmatched".
Definition spec_ok (kind uri : string) (tss cbs : list string) (pred : string) (pass : bool) (al : list (string * string)) (obs : bool * list nat * string) : bool :=
  match obs with (ctor, log, err) =>
  if existsb (String.eqb "") cbs || (String.eqb kind "pred" && String.eqb pred "") then ctor   (* wrong shape: construction must fail *)
  else negb ctor &&
  match tss, al with
  | [name], [] =>
      let direct := fun (log : list nat) (err : string) =>
        match own_struct uri name (String.eqb kind "json") with
        | Some s => match first_cb s cbs 0 with
                    | Some k => nats_eqb log [k] && String.eqb err "cbret"
                    | None => nats_eqb log [] && is_unmatched_str err
                    end
        | None => nats_eqb log [] && is_unmatched_str err
        end in
      if String.eqb kind "pred" then
        match own_struct uri name false with
        | Some s => if String.eqb s pred then
                      (if pass then match log with 50 :: r => direct (removelast r) err && Nat.eqb (last r 0) 51 | _ => false end
                       else nats_eqb log [50] && String.eqb err "nil")
                    else nats_eqb log [] && is_unmatched_str err
        | None => nats_eqb log [] && is_unmatched_str err
        end
      else direct log err
  | _, _ => true
  end end.

Definition S (i : nat) : string := nth i dict "".
Definition observed := map (fun x => match x with (kind, uri, tss, cbs, pred, pass, al, (c, l, e)) =>
   (S kind, S uri, map S tss, map S cbs, S pred, pass, map (fun p => (S (fst p), S (snd p))) al, (c, l, S e)) end) observed_raw.
Definition idx := seq 0 (length observed).
Definition judged := Eval vm_compute in
  map (fun p => match p with (i, (kind, uri, tss, cbs, pred, pass, al, obs)) =>
     (i, same obs (model_of kind uri tss cbs pred pass al), spec_ok kind uri tss cbs pred pass al obs) end) (combine idx observed).
Definition model_mismatch := Eval vm_compute in map (fun x => fst (fst x)) (filter (fun x => negb (snd (fst x))) judged).
Definition spec_mismatch := Eval vm_compute in map (fun x => fst (fst x)) (filter (fun x => negb (snd x)) judged).

(* exhaustive matrix *)
Definition code_of (x : bool * list nat * string) : nat :=
  match x with (c, l, e) =>
  if c then 8
  else if nats_eqb l [0] && String.eqb e "cbret" then 0
  else if nats_eqb l [] && String.eqb e "ErrNoCallbackMatch" then 1
  else if nats_eqb l [] && String.eqb e "ErrUnhandledType" then 2
  else if nats_eqb l [] && String.eqb e "ErrPredicateUnmatched" then 3
  else if nats_eqb l [50; 0; 51] && String.eqb e "cbret" then 4
  else if nats_eqb l [50] && String.eqb e "nil" then 5
  else if nats_eqb l [50; 51] && String.eqb e "ErrNoCallbackMatch" then 6
  else 9 end.
Definition uri_name_of_struct (s : string) : string * string :=
  match assoc s type_structs with
  | Some n => match find (fun t => String.eqb (t_name t) n) types_shipped with Some t => (t_vocab_uri t, n) | None => ("", n) end
  | None => ("", "") end.
Definition ex_names := map S ex_structs.
(* expected code by the model, and by the oracle: own type -> invoked, other type -> unmatched *)
Definition matrix_judged := Eval vm_compute in
  flat_map (fun row => match row with (k, v, codes) =>
    let kind := S k in let vs := S v in let un := uri_name_of_struct vs in
    map (fun p => match p with (cs, code) =>
       let m := if String.eqb kind "pred"
                then model_of kind (fst un) [snd un] [vs] cs true []
                else model_of kind (fst un) [snd un] [cs] "" false [] in
       let oracle := if String.eqb kind "pred" then (if String.eqb cs vs then 4 else 3)
                     else (if String.eqb cs vs then 0 else 1) in
       (kind, vs, cs, Nat.eqb code (code_of m), Nat.eqb code oracle) end) (combine ex_names codes) end) observed_matrix.
Definition matrix_model_mismatch := Eval vm_compute in
  map (fun x => match x with (k, v, c, _, _) => (k, v, c) end) (filter (fun x => match x with (_, _, _, m, _) => negb m end) matrix_judged).
Definition matrix_spec_mismatch := Eval vm_compute in
  map (fun x => match x with (k, v, c, _, _) => (k, v, c) end) (filter (fun x => match x with (_, _, _, _, o) => negb o end) matrix_judged).
Definition n_observed := Eval vm_compute in (length observed + length matrix_judged).
Print model_mismatch.
Print spec_mismatch.
Print matrix_model_mismatch.
Print matrix_spec_mismatch.
Print n_observed.
