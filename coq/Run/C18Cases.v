(* run/C18: sampled operation sequences on the real properties against the
   cell-level model (which predicts what iteration yields after a Swap that
   does not re-number) and against the plain list. *)
From Coq Require Import String List Bool Arith.
From Verif Require Import Base.ListX Streams.Container Streams.ContainerTemplate Gen.TablesShipped.
Require Import Run.observed.
Import ListNotations.
Open Scope string_scope.

Definition swap_fixed : bool :=
  match assoc "Swap" container_template with Some b => String.eqb b swap_body_fixed | None => false end.
Definition nats_eqb (a b : list nat) : bool := Nat.eqb (length a) (length b) && forallb (fun p => Nat.eqb (fst p) (snd p)) (combine a b).

Definition judged := Eval vm_compute in
  map (fun c => match c with (p, ops, (at_, fwd, bwd)) =>
    let l := fold_left (step nat swap_fixed) ops [] in
    let spec := fold_left (step_list nat) ops [] in
    (p, nats_eqb at_ (vals nat l) && nats_eqb fwd (walk_fwd nat (2 * length l + 2) l (nth_error l 0)) && nats_eqb bwd (walk_bwd nat (2 * length l + 2) l (nth_error l (length l - 1))),
        nats_eqb at_ spec && nats_eqb fwd spec && nats_eqb bwd (rev spec),
        existsb (is_swap nat) ops) end) observed.
Definition model_mismatch := Eval vm_compute in map (fun x => match x with (p, _, _, _) => p end) (filter (fun x => match x with (_, m, _, _) => negb m end) judged).
Definition spec_mismatch_noswap := Eval vm_compute in map (fun x => match x with (p, _, _, _) => p end) (filter (fun x => match x with (_, _, s, sw) => negb s && negb sw end) judged).
Definition spec_mismatch_swap := Eval vm_compute in length (filter (fun x => match x with (_, _, s, sw) => negb s && sw end) judged).
Definition n_observed := Eval vm_compute in length observed.
Definition swap_fixed_now := Eval vm_compute in swap_fixed.
Print model_mismatch.
Print spec_mismatch_noswap.
Print spec_mismatch_swap.
Print n_observed.
Print swap_fixed_now.
