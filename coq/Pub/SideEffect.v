(* Model of pub/side_effect_actor.go (the DelegateActor that implements the
   ActivityPub side effects), for the tree with the fix: commits applied. *)
From Coq Require Import String List Bool Arith.
From Verif Require Import Base.ListX Base.Json Base.Free Pub.Events Pub.Calls Pub.Value Pub.Util.
Import ListNotations.
Open Scope string_scope.
Open Scope list_scope.
Open Scope prog_scope.

(* what the application configured; static for one request *)
Record config := {
  c_social : bool;                 (* c2s != nil / Social protocol enabled *)
  c_federating : bool;             (* s2s != nil / Federating protocol enabled *)
  c_on_follow : nat;               (* 0 do nothing, 1 accept, 2 reject *)
  c_fed_wrapped : list string;     (* activity types whose FederatingWrappedCallbacks field is non-nil *)
  c_fed_other : list string;       (* types of the functions in FederatingCallbacks' "other" list, in order *)
  c_soc_wrapped : list string;
  c_soc_other : list string
}.

Definition id_str (v : json) : string := match get_id v with Ok i => i | _ => nil_iri end.

(* ---- AuthorizePostInbox ---- *)
Fixpoint actor_iris (l : list json) : res (list string) :=
  match l with
  | [] => Ok []
  | e :: r =>
      let one := if e_is_iri e then Ok (e_iri e)
                 else match e_type "actor" e with
                      | Some t => get_id t            (* fix F1: the embedded actor's own id *)
                      | None => Err EGeneric
                      end in
      match one with
      | Ok i => match actor_iris r with Ok is => Ok (i :: is) | x => x end
      | Err x => Err x
      | Panic s => Panic s
      end
  end.

Definition authorize_post_inbox (a : json) : prog (res bool) :=
  match elems "actor" a with
  | None => fail EGeneric
  | Some l =>
      iris <-? lift (actor_iris l) ;;
      x <- app "Blocked" [JArr (map JStr iris)] ;;
      match x with
      | ABool true => write_header 403 ;;; ok false
      | ABool false => ok true
      | _ => fail EGeneric
      end
  end.

(* ---- addToInboxIfNew ---- *)
Definition add_to_inbox_if_new (inbox : string) (a : json) : prog (res bool) :=
  with_lock_deferred inbox (
    let id := id_str a in
    contains <-? db_bool "InboxContains" [JStr inbox; JStr id] ;;
    if contains then ok false else
    ib <-? db_json "GetInbox" [JStr inbox] ;;
    _ <-? db_unit "SetInbox" [prepend_iri "orderedItems" id ib] ;;
    ok true).

(* ---- addToOutbox ---- *)
Definition add_to_outbox (outbox : string) (a : json) : prog (res unit) :=
  let id := id_str a in
  _ <-? lock id ;;
  r <- db_unit "Create" [a] ;;
  unlock id ;;;
  _ <-? lift r ;;
  with_lock_deferred outbox (
    ob <-? db_json "GetOutbox" [JStr outbox] ;;
    db_unit "SetOutbox" [prepend_iri "orderedItems" id ob]).

(* ---- deliverToRecipients ---- *)
Definition deliver_to_recipients (box : string) (a : json) (rcpts : list string) : prog (res unit) :=
  _ <-? new_transport box ;;
  batch_deliver a rcpts.

(* ---- WrapInCreate ---- *)
Definition wrap_in_create_for (obj : json) (outbox : string) : prog (res json) :=
  _ <-? lock outbox ;;
  r <- db_iri "ActorForOutbox" [JStr outbox] ;;
  unlock outbox ;;;
  actor <-? lift r ;;
  lift (wrap_in_create obj actor).

(* ---- AddNewIDs ---- *)
Fixpoint new_ids_objects (l : list json) : prog (res (list json)) :=
  match l with
  | [] => ok []
  | e :: r =>
      match e_type "object" e with
      | None => fail EGeneric
      | Some t =>
          id <-? db_iri "NewID" [t] ;;
          r' <-? new_ids_objects r ;;
          ok (jset "id" (JStr id) t :: r')
      end
  end.

Definition add_new_ids (a : json) : prog (res json) :=
  id <-? db_iri "NewID" [a] ;;
  let a := jset "id" (JStr id) a in
  if is_or_extends (type_name a) "Create" then
    if negb (vhas a "object") then fail EGeneric else
    match elems "object" a with
    | None => ok a
    | Some l => l' <-? new_ids_objects l ;; ok (set_elems "object" l' a)
    end
  else ok a.

(* ---- resolveActors / dereferenceForResolvingInboxes ---- *)
Inductive resolved := RSkip | RActor (v : json) | RMore (ids : list string).

(* what a dereferenced document is for delivery: an actor, a collection (its member ids), or nothing usable *)
Definition classify (d : deref_ans) : resolved :=
  match d with
  | DDoc j =>
      match to_type j with
      | Ok v =>
          if vhas v "items" then (match ids_of "items" v with Ok ids => RMore ids | _ => RSkip end)
          else if vhas v "orderedItems" then (match ids_of "orderedItems" v with Ok ids => RMore ids | _ => RSkip end)
          else RActor v
      | _ => RSkip
      end
  | _ => RSkip
  end.

Definition deref_for_resolving (u : string) : prog resolved :=
  d <- dereference u ;; ret (classify d).

(* fuel = maxDepth - depth; the Go recursion stops when depth >= maxDepth *)
Fixpoint resolve_actors (fuel : nat) (r : list string) : prog (list json) :=
  match fuel with
  | O => ret []
  | S f =>
      (fix loop (r : list string) : prog (list json) :=
         match r with
         | [] => ret []
         | u :: rest =>
             if is_public u then loop rest else   (* Public has no inbox and is never fetched *)
             x <- deref_for_resolving u ;;
             here <- match x with
                     | RSkip => ret []
                     | RActor v => ret [v]
                     | RMore ids => resolve_actors f ids
                     end ;;
             more <- loop rest ;;
             ret (here ++ more)
         end) r
  end.

(* ---- prepare ---- *)
Fixpoint inboxes_from_db (r : list string) : prog (res (list string * list string)) :=   (* (inboxes, actors) found *)
  match r with
  | [] => ok ([], [])
  | actor :: rest =>
      _ <-? lock actor ;;
      x <- db_opt_iri "InboxForActor" [JStr actor] ;;
      unlock actor ;;;
      found <-? lift x ;;
      more <-? inboxes_from_db rest ;;
      match found with
      | Some ib => ok (ib :: fst more, actor :: snd more)
      | None => ok more
      end
  end.

Definition collect_recipients (a : json) : res (list string) :=
  match ids_of "to" a with Ok t =>
  match ids_of "bto" a with Ok bt =>
  match ids_of "cc" a with Ok c =>
  match ids_of "bcc" a with Ok bc =>
  match ids_of "audience" a with Ok au => Ok (t ++ bt ++ c ++ bc ++ au)
  | x => x end | x => x end | x => x end | x => x end | x => x end.

Definition max_delivery_depth : prog nat :=
  x <- app "MaxDeliveryRecursionDepth" [] ;; ret (match x with ANat n => n | _ => 0 end).

(* Deliver: returns the (stripped) activity as delivered *)
Definition deliver (outbox : string) (a : json) : prog (res json) :=
  (* prepare evaluates MaxDeliveryRecursionDepth while building the resolveActors call, after NewTransport *)
  r0 <-? lift (collect_recipients a) ;;
  let r := filter_public r0 in
  found <-? inboxes_from_db r ;;
  let r := fold_left remove_one (snd found) r in
  _ <-? new_transport outbox ;;
  depth <- max_delivery_depth ;;
  actors <- resolve_actors (if Nat.eqb depth 0 then 64 else depth) r ;;
  remote_inboxes <-? lift (get_inboxes actors) ;;
  let targets := fst found ++ remote_inboxes in
  _ <-? lock outbox ;;
  x <- db_iri "ActorForOutbox" [JStr outbox] ;;
  unlock outbox ;;;
  actor <-? lift x ;;
  _ <-? lock actor ;;
  y <- db_json "Get" [JStr actor] ;;
  unlock actor ;;;
  this_actor <-? lift y ;;
  ignore <-? lift (get_inbox this_actor) ;;
  let a' := strip_hidden a in
  _ <-? deliver_to_recipients outbox a' (dedupe_iris targets [ignore]) ;;
  ok a'.

(* ---- hasInboxForwardingValues ---- *)
Fixpoint owns_any (ids : list string) : prog (res bool) :=
  match ids with
  | [] => ok false
  | i :: r =>
      _ <-? lock i ;;
      x <- db_bool "Owns" [JStr i] ;;
      unlock i ;;;
      owns <-? lift x ;;
      if owns then ok true else owns_any r
  end.

Fixpoint owns_any_value (vals : list json) : prog (res bool) :=
  match vals with
  | [] => ok false
  | v :: r =>
      id <-? lift (get_id v) ;;
      _ <-? lock id ;;
      x <- db_bool "Owns" [JStr id] ;;
      unlock id ;;;
      owns <-? lift x ;;
      if owns then ok true else owns_any_value r
  end.

Fixpoint fetch_for_forwarding (box : string) (iris : list string) : prog (res (list json)) :=
  match iris with
  | [] => ok []
  | i :: r =>
      _ <-? new_transport box ;;
      d <- dereference i ;;
      match d with
      | DFailed => fetch_for_forwarding box r
      | DNotJson => fail EGeneric
      | DDoc j => match to_type j with
                  | Ok v => more <-? fetch_for_forwarding box r ;; ok (v :: more)
                  | _ => fetch_for_forwarding box r
                  end
      end
  end.

Fixpoint has_forwarding_values (fuel : nat) (box : string) (v : json) : prog (res bool) :=
  match fuel with
  | O => ok false
  | S f =>
      let '(types, iris) := forwarding_values v in
      o1 <-? owns_any iris ;;
      if o1 then ok true else
      o2 <-? owns_any_value types ;;
      if o2 then ok true else
      fetched <-? fetch_for_forwarding box iris ;;
      (fix recur (l : list json) : prog (res bool) :=
         match l with
         | [] => ok false
         | x :: r => h <-? has_forwarding_values f box x ;; if h then ok true else recur r
         end) (types ++ fetched)
  end.

(* ---- InboxForwarding ---- *)
Fixpoint my_iris (r : list string) : prog (res (list string)) :=
  match r with
  | [] => ok []
  | i :: rest =>
      _ <-? lock i ;;
      x <- db_bool "Owns" [JStr i] ;;
      unlock i ;;;
      owns <-? lift x ;;
      more <-? my_iris rest ;;
      ok (if owns then i :: more else more)
  end.

(* loads the owned IRIs; collections stay locked (deferred unlock).  Returns the
   outcome together with the locks whose release is deferred so far. *)
Fixpoint load_collections (l : list string) (deferred : list string) (cols : list (string * json))
  : prog (res (list (string * json)) * list string) :=
  match l with
  | [] => ret (Ok cols, deferred)
  | i :: rest =>
      lk <- lock i ;;
      match lk with
      | Ok _ =>
          x <- db_json "Get" [JStr i] ;;
          match x with
          | Ok t =>
              let is_col := (is_or_extends (type_name t) "OrderedCollection" && vhas t "orderedItems")
                            || (negb (is_or_extends (type_name t) "OrderedCollection") && is_or_extends (type_name t) "Collection" && vhas t "items") in
              if is_col then load_collections rest (deferred ++ [i]) (cols ++ [(i, t)])
              else unlock i ;;; load_collections rest deferred cols
          | Err e => unlock i ;;; ret (Err e, deferred)        (* fix F2a: released before returning *)
          | Panic s => ret (Panic s, deferred)
          end
      | Err e => ret (Err e, deferred)
      | Panic s => ret (Panic s, deferred)
      end
  end.

Fixpoint unlock_all (l : list string) : prog unit :=
  match l with [] => ret tt | i :: r => unlock i ;;; unlock_all r end.

Definition members_of (t : json) : res (list string) :=
  if is_or_extends (type_name t) "OrderedCollection" then ids_of "orderedItems" t else ids_of "items" t.

Fixpoint forwarding_recipients (to_send : list string) (cols : list (string * json)) : res (list string) :=
  match to_send with
  | [] => Ok []
  | i :: r =>
      let here := match assoc i cols with Some t => members_of t | None => Ok [] end in
      match here with
      | Ok ids => match forwarding_recipients r cols with Ok more => Ok (ids ++ more) | x => x end
      | x => x
      end
  end.

(* fix F18: each owned IRI once, in lexical order *)
Fixpoint insert_sorted (x : string) (l : list string) : list string :=
  match l with
  | [] => [x]
  | y :: r => if String.leb x y then x :: l else y :: insert_sorted x r
  end.
Definition sort_strings (l : list string) : list string := fold_right insert_sorted [] l.

Definition inbox_forwarding (inbox : string) (a : json) : prog (res unit) :=
  let id := id_str a in
  _ <-? lock id ;;
  x <- db_bool "Exists" [JStr id] ;;
  match x with
  | Ok true => unlock id ;;; ok tt
  | Ok false =>
      y <- db_unit "Create" [a] ;;
      unlock id ;;;
      _ <-? lift y ;;
      to <-? lift (ids_of "to" a) ;;
      cc <-? lift (ids_of "cc" a) ;;
      au <-? lift (ids_of "audience" a) ;;
      mine <-? my_iris (to ++ cc ++ au) ;;
      loaded <- load_collections (sort_strings (dedupe_iris mine [])) [] [] ;;
      let '(rcols, deferred) := loaded in
      rr <- (cols <-? lift rcols ;;
             match cols with
             | [] => ok tt
             | _ =>
                 dx <- app "MaxInboxForwardingRecursionDepth" [] ;;
                 let depth := match dx with ANat n => n | _ => 0 end in
                 owns_value <-? has_forwarding_values (if Nat.eqb depth 0 then 64 else depth) inbox a ;;
                 if negb owns_value then ok tt else
                 fx <- app "FilterForwarding" [JArr (map (fun c => JStr (fst c)) cols); a] ;;
                 match fx with
                 | AIris to_send =>
                     rcpts <-? lift (forwarding_recipients to_send cols) ;;
                     deliver_to_recipients inbox a rcpts
                 | _ => fail EGeneric
                 end
             end) ;;
      unlock_all (rev deferred) ;;;
      ret rr
  | Err e => unlock id ;;; fail e
  | Panic s => unlock id ;;; Ret (Panic s)     (* unreachable: a Database answer is never a panic *)
  end.
