(* Events of package pub: every call the library makes on an application-
   supplied interface (Database, Transport, CommonBehavior, SocialProtocol,
   FederatingProtocol, Clock, ResponseWriter), with its arguments.  JSON
   arguments are in canonical form (sorted keys), so equality of events is
   Leibniz equality. *)
From Coq Require Import String List Bool Arith ZArith.
From Verif Require Import Base.ListX Base.Json Base.Free.
Import ListNotations.
Open Scope string_scope.

Inductive ev :=
| ELock (i : string)
| EUnlock (i : string)
| EDb (op : string) (args : list json)
| ENewTransport (box : string)
| EDeref (i : string)
| EBatchDeliver (payload : json) (rcpts : list string)
| EApp (name : string) (args : list json)
| EWriteHeader (code : nat)
| ESetHeader (k v : string)
| EWrite (body : json)
| ENow.

Inductive ans :=
| AOk                      (* call succeeded, no value *)
| AErr                     (* the call returned an error *)
| ABool (b : bool)
| AIri (i : string)
| ANone                    (* a nil value without error (InboxForActor, Get) *)
| AJson (j : json)
| AIris (l : list string)
| ANat (n : nat)
| AStr (s : string)
| AZ (z : Z)                (* Clock.Now(), Unix seconds *)
| ANotJson.                (* Dereference returned bytes that are not a JSON object *)

Definition strs_eqb (a b : list string) : bool := list_eqb a b.
Fixpoint jsons_eqb (a b : list json) : bool :=
  match a, b with
  | [], [] => true
  | x :: a', y :: b' => jeqb x y && jsons_eqb a' b'
  | _, _ => false
  end.

Lemma jsons_eqb_eq a b : jsons_eqb a b = true -> a = b.
Proof.
  revert b. induction a as [|x a IH]; intros [|y b] H; simpl in H; try discriminate; [reflexivity|].
  apply andb_true_iff in H. destruct H as [H1 H2]. apply jeqb_eq in H1. f_equal; [exact H1|apply IH; exact H2].
Qed.

Definition ev_eqb (a b : ev) : bool :=
  match a, b with
  | ELock i, ELock j | EUnlock i, EUnlock j | ENewTransport i, ENewTransport j | EDeref i, EDeref j => String.eqb i j
  | EDb o x, EDb p y | EApp o x, EApp p y => String.eqb o p && jsons_eqb x y
  | EBatchDeliver p r, EBatchDeliver q s => jeqb p q && strs_eqb r s
  | EWriteHeader m, EWriteHeader n => Nat.eqb m n
  | ESetHeader k v, ESetHeader k' v' => String.eqb k k' && String.eqb v v'
  | EWrite x, EWrite y => jeqb x y
  | ENow, ENow => true
  | _, _ => false
  end.

Lemma ev_eqb_eq a b : ev_eqb a b = true -> a = b.
Proof.
  destruct a, b; simpl; try discriminate; intros H;
  repeat match goal with
  | H : _ && _ = true |- _ => apply andb_true_iff in H; destruct H
  | H : String.eqb _ _ = true |- _ => apply String.eqb_eq in H
  | H : jsons_eqb _ _ = true |- _ => apply jsons_eqb_eq in H
  | H : jeqb _ _ = true |- _ => apply jeqb_eq in H
  | H : strs_eqb _ _ = true |- _ => apply list_eqb_eq in H
  | H : Nat.eqb _ _ = true |- _ => apply Nat.eqb_eq in H
  end; subst; reflexivity.
Qed.

Definition prog := M ev ans.

(* results of library functions: Go's (value, error) plus the panics the model knows *)
Inductive err := EGeneric | EObjectRequired | ETargetRequired | EUnmatchedType | ENotFound.
Inductive res (A : Type) := Ok (a : A) | Err (e : err) | Panic (site : string).
Arguments Ok {A}. Arguments Err {A}. Arguments Panic {A}.

Definition ret {A} (a : A) : prog A := Ret a.
Definition ok {A} (a : A) : prog (res A) := Ret (Ok a).
Definition fail {A} (e : err) : prog (res A) := Ret (Err e).
Definition panic {A} (site : string) : prog (res A) := Ret (Panic site).

(* bind that propagates errors and panics *)
Definition bindr {A B} (m : prog (res A)) (f : A -> prog (res B)) : prog (res B) :=
  bind m (fun r => match r with Ok a => f a | Err e => Ret (Err e) | Panic s => Ret (Panic s) end).

Declare Scope prog_scope.
Notation "x <- m ;; k" := (bind m (fun x => k)) (at level 61, m at next level, right associativity) : prog_scope.
Notation "x <-? m ;; k" := (bindr m (fun x => k)) (at level 61, m at next level, right associativity) : prog_scope.
Notation "m ;;; k" := (bind m (fun _ => k)) (at level 61, right associativity) : prog_scope.
