(* Model of pub/federating_wrapped_callbacks.go (tree with the fix: commits). *)
From Coq Require Import String List Bool Arith.
From Verif Require Import Base.ListX Base.Json Base.Free Pub.Events Pub.Calls Pub.Value Pub.Util Pub.SideEffect.
Import ListNotations.
Open Scope string_scope.
Open Scope list_scope.
Open Scope prog_scope.

Section Fed.
  Variable cfg : config.
  Variable inbox : string.

  Definition object_required (a : json) : bool :=
    match elems "object" a with None | Some [] => true | _ => false end.
  Definition target_required (a : json) : bool :=
    match elems "target" a with None | Some [] => true | _ => false end.

  Definition wrapped (name : string) (a : json) : prog (res unit) :=
    if mem name (c_fed_wrapped cfg) then app_unit ("Wrapped:" ++ name)%string [a] else ok tt.

  (* the object element as a value: embedded, or fetched when given by IRI *)
  Definition value_or_fetch (e : json) : prog (res json) :=
    match e_type "object" e with
    | Some t => ok t
    | None => if e_is_iri e then fetch inbox (e_iri e) else fail EGeneric
    end.

  Definition create (a : json) : prog (res unit) :=
    if object_required a then fail EObjectRequired else
    _ <-? foreach (elems0 "object" a) (fun e =>
            t <-? value_or_fetch e ;;
            id <-? lift (get_id t) ;;
            with_lock_deferred id (db_unit "Create" [t])) ;;
    wrapped "Create" a.

  Definition update (a : json) : prog (res unit) :=
    if object_required a then fail EObjectRequired else
    _ <-? lift (must_origin_match a) ;;
    _ <-? foreach (elems0 "object" a) (fun e =>
            match e_type "object" e with
            | None => fail EGeneric
            | Some t => id <-? lift (get_id t) ;; with_lock_deferred id (db_unit "Update" [t])
            end) ;;
    wrapped "Update" a.

  Definition delete (a : json) : prog (res unit) :=
    if object_required a then fail EObjectRequired else
    _ <-? lift (must_origin_match a) ;;
    _ <-? foreach (elems0 "object" a) (fun e =>
            id <-? lift (to_id "object" e) ;; with_lock_deferred id (db_unit "Delete" [JStr id])) ;;
    wrapped "Delete" a.

  (* first object id equal to the actor: ToId errors before the hit are returned *)
  Fixpoint names_me (p actor : string) (l : list json) : res bool :=
    match l with
    | [] => Ok false
    | e :: r => match to_id p e with
                | Ok i => if String.eqb i actor then Ok true else names_me p actor r
                | Err x => Err x
                | Panic s => Panic s
                end
    end.

  Definition response_activity (kind actor : string) (follow : json) (recipients : list string) : json :=
    JObj [("type", JStr kind); ("actor", JStr actor); ("object", follow); ("to", canon_list (map JStr recipients))].

  Definition follow (a : json) : prog (res unit) :=
    if object_required a then fail EObjectRequired else
    _ <-? lock inbox ;;
    x <- db_iri "ActorForInbox" [JStr inbox] ;;
    unlock inbox ;;;
    actor <-? lift x ;;
    is_me <-? lift (if Nat.eqb (c_on_follow cfg) 0 then Ok false else names_me "object" actor (elems0 "object" a)) ;;
    _ <-? (if negb is_me then ok tt else
      if negb (Nat.eqb (c_on_follow cfg) 1 || Nat.eqb (c_on_follow cfg) 2) then fail EGeneric else
      match elems "actor" a with
      | None => panic "federating follow: nil actor property"
      | Some al =>
          recipients <-? lift (to_ids "actor" al) ;;
          let kind := if Nat.eqb (c_on_follow cfg) 1 then "Accept" else "Reject" in
          let response := response_activity kind actor a recipients in
          _ <-? (if Nat.eqb (c_on_follow cfg) 1 then
                   _ <-? lock actor ;;
                   f <- db_json "Followers" [JStr actor] ;;
                   match f with
                   | Ok followers =>
                       let followers' :=
                         match recipients with
                         | [] => (match elems "items" followers with None => jset "items" (JArr []) followers | Some _ => followers end)
                         | _ => set_elems "items" (map JStr (rev recipients) ++ elems0 "items" followers) followers
                         end in
                       u <- db_unit "Update" [followers'] ;;
                       unlock actor ;;;
                       lift u
                   | Err e => unlock actor ;;; fail e
                   | Panic s => unlock actor ;;; Ret (Panic s)
                   end
                 else ok tt) ;;
          _ <-? lock inbox ;;                                   (* fix F3: the error is returned *)
          ob <- db_iri "OutboxForInbox" [JStr inbox] ;;
          unlock inbox ;;;
          outbox <-? lift ob ;;
          response' <-? add_new_ids response ;;
          _ <-? deliver outbox response' ;;
          ok tt
      end) ;;
    wrapped "Follow" a.

  (* Accept: find a Follow among the objects of which we are an actor *)
  Fixpoint find_my_follow (actor : string) (l : list json) : prog (res (option string)) :=
    match l with
    | [] => ok None
    | e :: r =>
        t <-? value_or_fetch e ;;
        if negb (is_or_extends (type_name t) "Follow") then find_my_follow actor r else
        follow_id <-? lift (get_id t) ;;
        mine <-? lift (match elems "actor" t with
                       | None => Ok false                      (* fix F12: a Follow without actor is not ours *)
                       | Some al => names_me "actor" actor al
                       end) ;;
        if mine then ok (Some follow_id) else find_my_follow actor r
    end.

  (* verification of the stored Follow, under its lock *)
  Definition verify_stored_follow (actor follow_id : string) (accept_actor_ids : list string) : prog (res unit) :=
    with_lock_deferred follow_id (
      t <-? db_json "Get" [JStr follow_id] ;;
      if negb (is_or_extends (type_name t) "Follow") then fail EGeneric else
      mine <-? lift (match elems "actor" t with None => Ok false | Some al => names_me "actor" actor al end) ;;
      if negb mine then fail EGeneric else
      follow_objs <-? lift (ids_of "object" t) ;;
      if forallb (fun i => mem i follow_objs) accept_actor_ids then ok tt else fail EGeneric).

  Definition accept (a : json) : prog (res unit) :=
    _ <-? (if object_required a then ok tt else
      _ <-? lock inbox ;;
      x <- db_iri "ActorForInbox" [JStr inbox] ;;
      unlock inbox ;;;
      actor <-? lift x ;;
      maybe <-? find_my_follow actor (elems0 "object" a) ;;
      match maybe with
      | None => ok tt
      | Some follow_id =>
          match elems "actor" a with
          | None | Some [] => fail EGeneric
          | Some al =>
              (* the accepting actors are converted inside the closure, after Get and the actor test *)
              _ <-? with_lock_deferred follow_id (
                      t <-? db_json "Get" [JStr follow_id] ;;
                      if negb (is_or_extends (type_name t) "Follow") then fail EGeneric else
                      mine <-? lift (match elems "actor" t with None => Ok false | Some l => names_me "actor" actor l end) ;;
                      if negb mine then fail EGeneric else
                      accept_ids <-? lift (to_ids "actor" al) ;;
                      follow_objs <-? lift (ids_of "object" t) ;;
                      if forallb (fun i => mem i follow_objs) accept_ids then ok tt else fail EGeneric) ;;
              _ <-? lock actor ;;
              f <- db_json "Following" [JStr actor] ;;
              match f with
              | Ok following =>
                  match to_ids "actor" al with
                  | Ok ids =>
                      let following' := set_elems "items" (map JStr (rev ids) ++ elems0 "items" following) following in
                      u <- db_unit "Update" [following'] ;;
                      unlock actor ;;;
                      lift u
                  | Err e => unlock actor ;;; fail e
                  | Panic s => unlock actor ;;; Ret (Panic s)
                  end
              | Err e => unlock actor ;;; fail e
              | Panic s => unlock actor ;;; Ret (Panic s)
              end
          end
      end) ;;
    wrapped "Accept" a.

  Definition reject (a : json) : prog (res unit) := wrapped "Reject" a.

  Definition add_cb (a : json) : prog (res unit) :=
    if object_required a then fail EObjectRequired else
    if target_required a then fail ETargetRequired else
    _ <-? add a ;;
    wrapped "Add" a.

  Definition remove_cb (a : json) : prog (res unit) :=
    if object_required a then fail EObjectRequired else
    if target_required a then fail ETargetRequired else
    _ <-? remove a ;;
    wrapped "Remove" a.

  (* likes / shares: prepend the activity id on the collection held by property cp of the object *)
  Definition prepend_on (cp : string) (id : string) (t : json) : res json :=
    if negb (vhas t cp) then Err EGeneric else
    let col := match jget cp t with
               | Some e => match e_type cp e with Some c => c | None => JObj [("type", JStr "Collection")] end
               | None => JObj [("type", JStr "Collection")]
               end in
    if vhas col "items" then Ok (jset cp (prepend_iri "items" id col) t)
    else if vhas col "orderedItems" then Ok (jset cp (prepend_iri "orderedItems" id col) t)
    else Err EGeneric.

  Definition like_loop (cp id : string) (e : json) : prog (res unit) :=
    obj_id <-? lift (to_id "object" e) ;;
    with_lock_deferred obj_id (
      owns <-? db_bool "Owns" [JStr obj_id] ;;
      if negb owns then ok tt else
      t <-? db_json "Get" [JStr obj_id] ;;
      t' <-? lift (prepend_on cp id t) ;;
      db_unit "Update" [t']).

  Definition like (a : json) : prog (res unit) :=
    if object_required a then fail EObjectRequired else
    id <-? lift (get_id a) ;;
    _ <-? foreach (elems0 "object" a) (like_loop "likes" id) ;;
    wrapped "Like" a.

  Definition announce (a : json) : prog (res unit) :=
    id <-? lift (get_id a) ;;
    _ <-? foreach (elems0 "object" a) (like_loop "shares" id) ;;
    wrapped "Announce" a.

  Definition undo (a : json) : prog (res unit) :=
    if object_required a then fail EObjectRequired else
    _ <-? must_actors_match inbox a ;;
    wrapped "Undo" a.

  Definition block (a : json) : prog (res unit) :=
    if object_required a then fail EObjectRequired else
    wrapped "Block" a.

  Definition fed_defaults : list string :=
    ["Create"; "Update"; "Delete"; "Follow"; "Accept"; "Reject"; "Add"; "Remove"; "Like"; "Announce"; "Undo"; "Block"].

  Definition fed_default (ty : string) (a : json) : prog (res unit) :=
    if String.eqb ty "Create" then create a else if String.eqb ty "Update" then update a
    else if String.eqb ty "Delete" then delete a else if String.eqb ty "Follow" then follow a
    else if String.eqb ty "Accept" then accept a else if String.eqb ty "Reject" then reject a
    else if String.eqb ty "Add" then add_cb a else if String.eqb ty "Remove" then remove_cb a
    else if String.eqb ty "Like" then like a else if String.eqb ty "Announce" then announce a
    else if String.eqb ty "Undo" then undo a else block a.

  (* sideEffectActor.PostInbox *)
  Definition post_inbox (a : json) : prog (res unit) :=
    is_new <-? add_to_inbox_if_new inbox a ;;
    if negb is_new then ok tt else
    _ <-? app_unit "FederatingCallbacks" [] ;;
    let ty := type_name a in
    if mem ty (c_fed_other cfg) then app_unit ("Other:" ++ ty)%string [a]
    else if mem ty fed_defaults then fed_default ty a
    else app_unit "DefaultCallback" [a].
End Fed.
