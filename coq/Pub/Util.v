(* Model of pub/util.go. *)
From Coq Require Import String List Bool Arith.
From Verif Require Import Base.ListX Base.Json Base.Free Vocab.Tables Pub.Events Pub.Calls Pub.Value Pub.EffectSpec.
From Verif Require Import Gen.PubShipped.
Import ListNotations.
Open Scope string_scope.
Open Scope list_scope.
Open Scope prog_scope.

(* ---- request classification ---- *)
Definition media_types : list string :=
  base_media_type :: flat_map (fun semi => map (fun profile => (ld_type ++ semi ++ profile)%string) profiles) semis.

Fixpoint prefix_list (a b : list Ascii.ascii) : bool :=
  match a, b with
  | [], _ => true
  | x :: a', y :: b' => Ascii.eqb x y && prefix_list a' b'
  | _, [] => false
  end.
Fixpoint contains_list (needle hay : list Ascii.ascii) : bool :=
  prefix_list needle hay || match hay with [] => false | _ :: r => contains_list needle r end.
Definition str_contains (hay needle : string) : bool :=
  contains_list (list_ascii_of_string needle) (list_ascii_of_string hay).
Definition header_is_ap_media_type (h : string) : bool := existsb (str_contains h) media_types.
Definition is_ap_post (method content_type : string) : bool := String.eqb method "POST" && header_is_ap_media_type content_type.
Definition is_ap_get (method accept : string) : bool := String.eqb method "GET" && header_is_ap_media_type accept.

(* ---- Public ---- *)
Definition public_iri := "https://www.w3.org/ns/activitystreams#Public".
Definition is_public (s : string) : bool := String.eqb s public_iri || String.eqb s "Public" || String.eqb s "as:Public".
Definition filter_public (l : list string) : list string := filter (fun s => negb (is_public s)) l.

Fixpoint dedupe_against (seen : list string) (l : list string) : list string :=
  match l with
  | [] => []
  | x :: r => if mem x seen then dedupe_against seen r else x :: dedupe_against (x :: seen) r
  end.
(* dedupeIRIs(recipients, ignored) *)
Definition dedupe_iris (recipients ignored : list string) : list string := dedupe_against ignored recipients.
(* removeOne removes every occurrence *)
Definition remove_one (l : list string) (x : string) : list string := filter (fun e => negb (String.eqb e x)) l.

(* ---- ids of a property's elements; nil property = no ids ---- *)
Definition ids_of (p : string) (o : json) : res (list string) :=
  match elems p o with None => Ok [] | Some l => to_ids p l end.

(* ---- wrapInCreate ---- *)
Definition addressing : list string := ["to"; "bto"; "cc"; "bcc"; "audience"].

Fixpoint copy_addressing (ps : list string) (o c : json) : res json :=
  match ps with
  | [] => Ok c
  | p :: r =>
      if vhas o p then
        match elems p o with
        | None => copy_addressing r o c
        | Some l => match to_ids p l with
                    | Ok ids => copy_addressing r o (jset p (JArr (map JStr ids)) c)
                    | Err e => Err e
                    | Panic s => Panic s
                    end
        end
      else copy_addressing r o c
  end.

Definition wrap_in_create (o : json) (actor : string) : res json :=
  let c := JObj [("type", JStr "Create"); ("object", o); ("actor", JStr actor)] in
  let c := if vhas o "published" then match jget "published" o with Some v => jset "published" v c | None => c end else c in
  (* a freshly built property is written as an array even when it holds one element? no: Serialize writes one element as a scalar *)
  match copy_addressing addressing o c with
  | Ok c' => Ok (fold_left (fun acc p => match jget p acc with Some (JArr [x]) => jset p x acc | _ => acc end) addressing c')
  | r => r
  end.

(* ---- stripHiddenRecipients / clearSensitiveFields ---- *)
Definition strip_elem (e : json) : json :=
  match e_type "object" e with
  | Some v => let v := if vhas v "bto" then jremove "bto" v else v in
              if vhas v "bcc" then jremove "bcc" v else v
  | None => e
  end.
Definition strip_hidden (a : json) : json :=
  let a := jremove "bcc" (jremove "bto" a) in
  match elems "object" a with
  | None => a
  | Some l => set_elems "object" (map strip_elem l) a
  end.

Fixpoint clear_sensitive (fuel : nat) (v : json) : json :=
  match fuel with
  | O => v
  | S f =>
      let v := if vhas v "bto" then jremove "bto" v else v in
      let v := if vhas v "bcc" then jremove "bcc" v else v in
      if vhas v "object" then
        match elems "object" v with
        | None => v
        | Some l => set_elems "object" (map (fun e => match e_type "object" e with Some x => clear_sensitive f x | None => e end) l) v
        end
      else v
  end.
(* nesting depth of a JSON value: enough fuel for clear_sensitive *)
Fixpoint jdepth (j : json) : nat :=
  match j with
  | JArr l => S (fold_right (fun x acc => Nat.max (jdepth x) acc) 0 l)
  | JObj m => S (fold_right (fun kv acc => Nat.max (jdepth (snd kv)) acc) 0 m)
  | _ => 0
  end.

(* ---- mustHaveActivityOriginMatchObjects ---- *)
Fixpoint origin_loop (host : string) (l : list json) : res unit :=
  match l with
  | [] => Ok tt
  | e :: r => match to_id "object" e with
              | Ok i => if is_nil i then Panic "mustHaveActivityOriginMatchObjects: nil object id"
                        else if String.eqb host (host_of i) then origin_loop host r else Err EGeneric
              | Err x => Err x
              | Panic s => Panic s
              end
  end.
Definition must_origin_match (a : json) : res unit :=
  match get_id a with
  | Ok origin =>
      if is_nil origin then Panic "mustHaveActivityOriginMatchObjects: nil activity id" else
      match elems "object" a with
      | None | Some [] => Ok tt
      | Some l => origin_loop (host_of origin) l
      end
  | Err e => Err e
  | Panic s => Panic s
  end.

(* ---- dedupeOrderedItems ---- *)
Fixpoint dedupe_items (seen : list string) (l : list json) : res (list json) :=
  match l with
  | [] => Ok []
  | e :: r =>
      let idr := match e_type "orderedItems" e with
                 | Some v => get_id v
                 | None => if e_is_iri e then Ok (e_iri e) else Err EGeneric
                 end in
      match idr with
      | Ok i => if is_nil i then Panic "dedupeOrderedItems: nil id" else
                if mem i seen then dedupe_items seen r
                else match dedupe_items (i :: seen) r with Ok l' => Ok (e :: l') | x => x end
      | Err x => Err x
      | Panic s => Panic s
      end
  end.
Definition dedupe_ordered_items (oc : json) : res json :=
  match elems "orderedItems" oc with
  | None => Ok oc
  | Some l => match dedupe_items [] l with
              | Ok l' => Ok (set_elems "orderedItems" l' oc)
              | Err e => Err e
              | Panic s => Panic s
              end
  end.

(* ---- getInbox / getInboxes ---- *)
Definition get_inbox (t : json) : res string :=
  if vhas t "inbox" then
    match jget "inbox" t with
    | None => Err EGeneric                       (* fix F5 *)
    | Some e => to_id "inbox" e
    end
  else Err EGeneric.
Fixpoint get_inboxes (l : list json) : res (list string) :=
  match l with
  | [] => Ok []
  | t :: r => match get_inbox t with
              | Ok i => match get_inboxes r with Ok is => Ok (i :: is) | x => x end
              | Err e => Err e
              | Panic s => Panic s
              end
  end.

(* ---- getInboxForwardingValues: (embedded values, IRIs) in the order inReplyTo, tag, object, target ---- *)
Definition e_get_iri (e : json) : string := if e_is_iri e then e_iri e else nil_iri.
Definition forwarding_values (o : json) : list json * list string :=
  fold_left (fun acc p =>
     if vhas o p then
       fold_left (fun acc e => match e_type p e with
                               | Some v => (fst acc ++ [v], snd acc)
                               | None => (fst acc, snd acc ++ [e_get_iri e])
                               end) (elems0 p o) acc
     else acc) ["inReplyTo"; "tag"; "object"; "target"] ([], []).

(* ---- toTombstone ---- *)
Definition to_tombstone (obj : json) (id now_ : string) : json :=
  let t := JObj [("type", JStr "Tombstone"); ("id", JStr id); ("formerType", JStr (type_name obj))] in
  let t := if vhas obj "published" then match jget "published" obj with Some v => jset "published" v t | None => t end else t in
  let t := if vhas obj "updated" then match jget "updated" obj with Some v => jset "updated" v t | None => t end else t in
  jset "deleted" (JStr now_) t.

(* ---- normalizeRecipients (the Go map iterations are taken in the given list orders) ---- *)
Definition missing (have want : list string) : list string := filter (fun x => negb (mem x have)) want.


Section Normalize.
  (* order in which a Go map's keys are visited: any permutation (identity when the model is executed) *)
  Variable perm : list string -> list string.

  Definition uniq (l : list string) : list string := dedupe_against [] l.

  (* ids of the five addressing properties of v, creating empty properties where nil *)
  Fixpoint acquire (ps : list string) (need_prop : bool) (v : json) : res (json * list (list string)) :=
    match ps with
    | [] => Ok (v, [])
    | p :: r =>
        if need_prop && negb (vhas v p) then Err EGeneric else
        match ids_of p v with
        | Ok ids =>
            let v := match elems p v with None => jset p (JArr []) v | Some _ => v end in
            match acquire r need_prop v with
            | Ok (v', rest) => Ok (v', ids :: rest)
            | Err e => Err e
            | Panic s => Panic s
            end
        | Err e => Err e
        | Panic s => Panic s
        end
    end.

  Definition append_iris (p : string) (ids : list string) (v : json) : json :=
    match ids with [] => v | _ => set_elems p (elems0 p v ++ map JStr ids) v end.

  (* Phase 1+2 for one object element; returns the updated element and its original ids *)
  Definition norm_object (act_ids : list (list string)) (e : json) : res (json * list (list string)) :=
    match e_type "object" e with
    | None => Err EGeneric
    | Some o =>
        match acquire addressing true o with
        | Ok (o1, obj_ids) =>
            let o2 := fold_left (fun acc t => match t with (p, (aids, oids)) => append_iris p (perm (missing oids (uniq aids))) acc end)
                                (combine addressing (combine act_ids obj_ids)) o1 in
            Ok (o2, obj_ids)
        | Err x => Err x
        | Panic s => Panic s
        end
    end.

  Fixpoint norm_objects (act_ids : list (list string)) (l : list json) : res (list json * list (list (list string))) :=
    match l with
    | [] => Ok ([], [])
    | e :: r => match norm_object act_ids e with
                | Ok (e', ids) => match norm_objects act_ids r with
                                  | Ok (r', idss) => Ok (e' :: r', ids :: idss)
                                  | Err x => Err x | Panic s => Panic s end
                | Err x => Err x
                | Panic s => Panic s
                end
    end.

  Definition normalize_recipients (a : json) : res json :=
    match acquire addressing false a with
    | Ok (a1, act_ids) =>
        match elems "object" a1 with
        | None => Panic "normalizeRecipients: nil object property"
        | Some objs =>
            match norm_objects act_ids objs with
            | Ok (objs', obj_idss) =>
                let a2 := set_elems "object" objs' a1 in
                (* Phase 3: per property, per object, the object's original ids missing on the activity *)
                let a3 := fold_left (fun acc t => match t with (k, (p, aids)) =>
                             fold_left (fun acc2 oids => append_iris p (perm (missing aids (uniq (nth k oids [])))) acc2) obj_idss acc end)
                           (combine (seq 0 5) (combine addressing act_ids)) a2 in
                Ok a3
            | Err x => Err x
            | Panic s => Panic s
            end
        end
    | Err x => Err x
    | Panic s => Panic s
    end.
End Normalize.

(* ---- add / remove (shared by both protocols) ---- *)
Definition collection_prop (tp : json) : res string :=
  if is_or_extends (type_name tp) "OrderedCollection" then (if vhas tp "orderedItems" then Ok "orderedItems" else Err EGeneric)
  else if is_or_extends (type_name tp) "Collection" then (if vhas tp "items" then Ok "items" else Err EGeneric)
  else Err EGeneric.

Definition with_lock_deferred {A} (i : string) (body : prog (res A)) : prog (res A) :=
  _ <-? lock i ;; r <- body ;; unlock i ;;; ret r.

Definition add_loop (op_ids : list string) (t : string) : prog (res unit) :=
  with_lock_deferred t (
    owns <-? db_bool "Owns" [JStr t] ;;
    if negb owns then ok tt else
    tp <-? db_json "Get" [JStr t] ;;
    cp <-? lift (collection_prop tp) ;;
    db_unit "Update" [add_spec cp op_ids tp]).

Definition add (a : json) : prog (res unit) :=
  op_ids <-? lift (ids_of "object" a) ;;
  target_ids <-? lift (ids_of "target" a) ;;
  foreach target_ids (add_loop op_ids).

Definition remove_loop (op_ids : list string) (t : string) : prog (res unit) :=
  with_lock_deferred t (
    owns <-? db_bool "Owns" [JStr t] ;;
    if negb owns then ok tt else
    tp <-? db_json "Get" [JStr t] ;;
    cp <-? lift (collection_prop tp) ;;
    tp' <-? lift (remove_spec cp op_ids tp) ;;
    db_unit "Update" [tp']).

Definition remove (a : json) : prog (res unit) :=
  op_ids <-? lift (ids_of "object" a) ;;
  target_ids <-? lift (ids_of "target" a) ;;
  foreach target_ids (remove_loop op_ids).

(* ---- dereference an IRI into a value (the recurring NewTransport / Dereference / Unmarshal / ToType sequence) ---- *)
Definition fetch (box i : string) : prog (res json) :=
  _ <-? new_transport box ;;
  d <- dereference i ;;
  match d with
  | DDoc j => lift (to_type j)
  | DNotJson | DFailed => fail EGeneric
  end.

(* ---- mustHaveActivityActorsMatchObjectActors ---- *)
Definition all_in (ids : list string) (allowed : list string) : bool := forallb (fun i => mem i allowed) ids.

Definition actors_match_one (box : string) (activity_actors : list string) (e : json) : prog (res unit) :=
  iri <-? lift (to_id "object" e) ;;
  t <-? fetch box iri ;;
  if negb (vhas t "actor") then fail EGeneric else
  match elems "actor" t with
  | None => fail EGeneric                        (* fix F7 *)
  | Some l =>
      ids <-? lift (to_ids "actor" l) ;;
      (* ids are compared in order; the first one not listed fails *)
      if all_in ids activity_actors then ok tt else fail EGeneric
  end.

Definition must_actors_match (box : string) (a : json) : prog (res unit) :=
  match elems "actor" a with
  | None => fail EGeneric                        (* fix F6 *)
  | Some al =>
      activity_actors <-? lift (to_ids "actor" al) ;;
      foreach (elems0 "object" a) (actors_match_one box activity_actors)
  end.

(* ---- hidden recipients (C03) ---- *)
(* a value carries hidden recipients if its type has the property and the member is present *)
Definition hidden_on (v : json) : bool := (vhas v "bto" && jhas "bto" v) || (vhas v "bcc" && jhas "bcc" v).
(* the activity itself and the values embedded in its object property *)
Definition no_hidden (a : json) : bool :=
  negb (hidden_on a) && forallb (fun e => match e_type "object" e with Some v => negb (hidden_on v) | None => true end) (elems0 "object" a).
(* at every depth of object nesting *)
Fixpoint deep_no_hidden (fuel : nat) (v : json) : bool :=
  match fuel with
  | O => true
  | S f => negb (hidden_on v) &&
           (if vhas v "object" then
              forallb (fun e => match e_type "object" e with Some x => deep_no_hidden f x | None => true end) (elems0 "object" v)
            else true)
  end.



