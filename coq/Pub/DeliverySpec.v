(* C02: what federated delivery must hand to the transport, as a function of
   the federation graph: which actor IRIs have an application-stored inbox,
   what each IRI dereferences to, the recursion limit, the sender's inbox. *)
From Coq Require Import String List Bool Arith.
From Verif Require Import Base.ListX Base.Json Base.Free Pub.Events Pub.Calls Pub.Value Pub.Util Pub.SideEffect.
Import ListNotations.
Open Scope string_scope.
Open Scope list_scope.

Record graph := {
  g_stored_inbox : string -> option string;   (* Database.InboxForActor *)
  g_deref : string -> deref_ans;               (* Transport.Dereference (+ JSON decoding) *)
  g_depth : nat;                               (* MaxDeliveryRecursionDepth, positive *)
  g_self : string                              (* the sending actor's own inbox *)
}.

(* what one dereferenced document contributes *)
Inductive contribution := CNothing | CInbox (i : res string) | CMembers (ids : list string).
Definition contribute (d : deref_ans) : contribution :=
  match classify d with
  | RSkip => CNothing
  | RActor v => CInbox (get_inbox v)
  | RMore ids => CMembers ids
  end.

(* inboxes reached from the ids by dereferencing, collections expanded while depth remains *)
Fixpoint expand (g : graph) (fuel : nat) (ids : list string) : list (res string) :=
  match fuel with
  | O => []
  | S f => flat_map (fun u => match contribute (g_deref g u) with
                              | CNothing => []
                              | CInbox i => [i]
                              | CMembers ms => expand g f ms
                              end) (filter_public ids)
  end.

Fixpoint all_ok (l : list (res string)) : res (list string) :=
  match l with
  | [] => Ok []
  | Ok i :: r => match all_ok r with Ok is => Ok (i :: is) | x => x end
  | Err e :: _ => Err e
  | Panic s :: _ => Panic s
  end.

Definition spec_targets (g : graph) (a : json) : res (list string) :=
  match collect_recipients a with
  | Ok addressed =>
      let r := filter_public addressed in
      let hits := flat_map (fun actor => match g_stored_inbox g actor with Some ib => [ib] | None => [] end) r in
      let rest := filter (fun actor => match g_stored_inbox g actor with Some _ => false | None => true end) r in
      match all_ok (expand g (g_depth g) rest) with
      | Ok remote => Ok (dedupe_iris (hits ++ remote) [g_self g])
      | Err e => Err e
      | Panic s => Panic s
      end
  | Err e => Err e
  | Panic s => Panic s
  end.

(* the IRIs dereferenced, in order: every id of a level, then (depth permitting) the members it lists *)
Fixpoint derefs (g : graph) (fuel : nat) (ids : list string) : list string :=
  match fuel with
  | O => []
  | S f => flat_map (fun u => u :: match classify (g_deref g u) with RMore ms => derefs g f ms | _ => [] end) (filter_public ids)
  end.
Definition derefs_spec (g : graph) (addressed : list string) : list string :=
  derefs g (g_depth g) (filter (fun actor => match g_stored_inbox g actor with Some _ => false | None => true end) (filter_public addressed)).

(* ---- reading the graph off a recorded trace (answers are those the application gave) ---- *)
Fixpoint find_ans (f : ev -> bool) (tr : list (ev * ans)) : option ans :=
  match tr with [] => None | (e, x) :: r => if f e then Some x else find_ans f r end.
Definition is_db (op : string) (arg : string) (e : ev) : bool :=
  match e with EDb op' [JStr a] => String.eqb op op' && String.eqb a arg | _ => false end.

Definition graph_of_trace (tr : list (ev * ans)) (self : string) : graph :=
  {| g_stored_inbox := fun actor => match find_ans (is_db "InboxForActor" actor) tr with Some (AIri i) => Some i | _ => None end;
     g_deref := fun u => match find_ans (fun e => match e with EDeref i => String.eqb i u | _ => false end) tr with
                         | Some (AJson j) => DDoc j | Some ANotJson => DNotJson | _ => DFailed end;
     g_depth := match find_ans (fun e => match e with EApp n _ => String.eqb n "MaxDeliveryRecursionDepth" | _ => false end) tr with
                | Some (ANat n) => if Nat.eqb n 0 then 64 else n | _ => 0 end;
     g_self := self |}.

(* ---- judging a recorded outbox run ---- *)
Definition ans_eqb (a b : ans) : bool :=
  match a, b with
  | AOk, AOk | AErr, AErr | ANone, ANone | ANotJson, ANotJson => true
  | AIri x, AIri y => String.eqb x y
  | AJson x, AJson y => jeqb x y
  | ANat x, ANat y => Nat.eqb x y
  | _, _ => false
  end.

(* the stored activity (argument of the last Database.Create) and what happened after it *)
Fixpoint after_last_create (tr : list (ev * ans)) (acc : option (json * list (ev * ans))) : option (json * list (ev * ans)) :=
  match tr with
  | [] => acc
  | (EDb op [a], _) :: r => if String.eqb op "Create" then after_last_create r (Some (a, r)) else after_last_create r acc
  | _ :: r => after_last_create r acc
  end.

Definition graph_event (e : ev) : bool :=
  match e with EDeref _ => true | EDb op _ => String.eqb op "InboxForActor" || String.eqb op "ActorForOutbox" || String.eqb op "Get" | _ => false end.
(* a failed Database call ends the delivery on the spot: it cannot make the graph ambiguous *)
Definition db_failed (e : ev) (x : ans) : bool := match e, x with EDb _ _, AErr => true | _, _ => false end.
(* the recorded answers define a function (the same call was never answered in two ways) *)
Fixpoint functional (tr : list (ev * ans)) : bool :=
  match tr with
  | [] => true
  | (e, x) :: r => (if graph_event e then forallb (fun p => negb (ev_eqb e (fst p)) || ans_eqb x (snd p) || db_failed e (snd p)) r else true) && functional r
  end.

Definition deref_events (tr : list (ev * ans)) : list string := flat_map (fun p => match fst p with EDeref u => [u] | _ => [] end) tr.
Definition batches (tr : list (ev * ans)) : list (list string) := flat_map (fun p => match fst p with EBatchDeliver _ r => [r] | _ => [] end) tr.
Fixpoint is_prefix (a b : list string) : bool :=
  match a, b with
  | [], _ => true
  | x :: a', y :: b' => String.eqb x y && is_prefix a' b'
  | _, [] => false
  end.

Definition self_of_trace (tr : list (ev * ans)) : option string :=
  match find_ans (fun e => match e with EDb op _ => String.eqb op "ActorForOutbox" | _ => false end) tr with
  | Some (AIri actor) =>
      match find_ans (is_db "Get" actor) tr with
      | Some (AJson doc) => match get_inbox doc with Ok i => Some i | _ => None end
      | _ => None
      end
  | _ => None
  end.

(* 0 ok, 1 violation, 2 not judged *)
Definition delivery_judge (tr : list (ev * ans)) (succeeded : bool) : nat * string :=
  match after_last_create tr None with
  | None => if match batches tr with [] => true | _ => false end then (0, "") else (1, "delivery without a stored activity")
  | Some (a, rest) =>
      if negb (functional rest) then (2, "") else
      match collect_recipients a with
      | Ok addressed =>
          let g0 := graph_of_trace rest "" in
          let want_derefs := derefs_spec g0 addressed in
          if existsb is_public (deref_events rest) then (1, "Public dereferenced") else
          if negb (is_prefix (deref_events rest) want_derefs) then (1, "dereferenced something other than the specification's sequence") else
          match batches rest with
          | [] => if succeeded then
                    match self_of_trace rest with
                    | Some self => match spec_targets (graph_of_trace rest self) a with Ok _ => (1, "accepted but nothing handed to the transport") | _ => (0, "") end
                    | None => (0, "")
                    end
                  else (0, "")
          | [got] =>
              match self_of_trace rest with
              | Some self =>
                  match spec_targets (graph_of_trace rest self) a with
                  | Ok want => if list_eqb got want then
                                 if list_eqb (deref_events rest) want_derefs then (0, "") else (1, "not every specified id was dereferenced")
                               else (1, "transport given other inboxes than the specification's")
                  | _ => (1, "delivered although an actor has no inbox")
                  end
              | None => (1, "delivered without resolving the sender's inbox")
              end
          | _ => (1, "payload handed to the transport more than once")
          end
      | _ => if match batches rest with [] => true | _ => false end then (0, "") else (1, "delivered an activity whose recipients cannot be read")
      end
  end.
