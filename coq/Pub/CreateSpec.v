(* C05: what a Create must look like when the Social protocol has normalised and stored it - as
   executable checkers over the value before (after wrapping, before ids) and the value stored. *)
From Coq Require Import String List Bool Arith.
From Verif Require Import Base.ListX Base.Json Base.Free Pub.Events Pub.Calls Pub.Value Pub.Util Pub.SideEffect.
Import ListNotations.
Open Scope string_scope.
Open Scope list_scope.

Definition idset (p : string) (v : json) : list string := match ids_of p v with Ok l => l | _ => [] end.
Definition subset (a b : list string) : bool := forallb (fun x => mem x b) a.
Definition same_set (a b : list string) : bool := subset a b && subset b a.
Definition objs (a : json) : list json := flat_map (fun e => match e_type "object" e with Some o => [o] | None => [] end) (elems0 "object" a).

(* the stored Create alone: each addressing property of the activity is the union of the objects', and every
   attributedTo entry is an actor *)
Definition normalized (a : json) : bool :=
  match objs a with
  | [] => true
  | os => forallb (fun p => same_set (idset p a) (flat_map (idset p) os)) addressing &&
          forallb (fun o => subset (idset "attributedTo" o) (idset "actor" a)) os
  end.

(* against the value before: exactly the unions the statement names, nothing else *)
Definition gained (before after : json) : bool :=
  let os := objs before in let os' := objs after in
  Nat.eqb (length os) (length os') &&
  forallb (fun p =>
    same_set (idset p after) (idset p before ++ flat_map (idset p) os) &&
    forallb (fun t => same_set (idset p (snd t)) (idset p (fst t) ++ idset p before)) (combine os os')) addressing &&
  same_set (idset "actor" after) (idset "actor" before ++ flat_map (idset "attributedTo") os) &&
  forallb (fun t => if vhas (fst t) "attributedTo"
                    then same_set (idset "attributedTo" (snd t)) (idset "attributedTo" (fst t) ++ idset "actor" before) else true) (combine os os').

(* wrapping a non-activity: a Create by the outbox's owner copying the addressing and published *)
Definition wrapped_ok (obj create : json) (owner : string) : bool :=
  String.eqb (type_name create) "Create" &&
  list_eqb (idset "actor" create) [owner] &&
  forallb (fun p => list_eqb (idset p create) (idset p obj)) addressing &&
  match jget "published" obj, jget "published" create with
  | Some x, Some y => jeqb (canon x) (canon y)
  | None, None => true
  | _, _ => negb (vhas obj "published")
  end &&
  Nat.eqb (length (elems0 "object" create)) 1.
