(* The trace properties of package pub as monitors (deterministic state
   machines over (event, answer) traces).  The same monitors judge the traces
   recorded from the real code and are the subject of the wp theorems about the
   model programs. *)
From Coq Require Import String List Bool Arith.
From Verif Require Import Base.ListX Base.Json Base.Free Pub.Events.
Import ListNotations.
Open Scope string_scope.

(* ---------------- C09: lock discipline ---------------- *)
Definition held := list string.
Fixpoint remove1 (i : string) (h : held) : held :=
  match h with [] => [] | x :: r => if String.eqb x i then r else x :: remove1 i r end.

(* strict = true: the full discipline.  strict = false: the counting variant that tolerates re-taking an id
   already held (it is pushed a second time and must be released a second time): every other clause still
   applies, so it states "released exactly once, never unlocked when not held, Database only under a lock,
   nothing leaked" for code whose only defect is the re-entrant Lock of finding F2b. *)
Definition lock_step_gen (strict : bool) (h : held) (e : ev) (x : ans) : option held :=
  match e with
  | ELock i => if strict && mem i h then None                 (* retaken while this request holds it *)
               else match x with AOk => Some (i :: h) | _ => Some h end
  | EUnlock i => if mem i h then Some (remove1 i h) else None   (* unlock of a lock not held *)
  | EDb op _ => if String.eqb op "NewID" then Some h
                else match h with [] => None | _ => Some h end   (* Database access without a lock *)
  | _ => Some h
  end.
Definition lock_step := lock_step_gen true.
Definition lock_final (h : held) : bool := match h with [] => true | _ => false end.

(* ---------------- C07: nothing before authentication / block check ---------------- *)
Record gate := { g_auth : bool; g_block : bool }.
Definition is_side_effect_app (name : string) : bool :=
  prefix "Wrapped:" name || prefix "Other:" name || String.eqb name "DefaultCallback" || String.eqb name "FilterForwarding"
  || String.eqb name "FederatingCallbacks" || String.eqb name "SocialCallbacks" || String.eqb name "GetInbox" || String.eqb name "GetOutbox".
Definition is_side_effect (e : ev) : bool :=
  match e with
  | ELock _ | EUnlock _ | EDb _ _ | ENewTransport _ | EDeref _ | EBatchDeliver _ _ => true
  | EApp name _ => is_side_effect_app name
  | _ => false
  end.
(* needs_block: inbox POSTs also need the block check to have passed *)
Definition gate_step (needs_block : bool) (g : gate) (e : ev) (x : ans) : option gate :=
  if is_side_effect e then (if g_auth g && (negb needs_block || g_block g) then Some g else None)
  else match e with
       | EApp name _ =>
           match x with
           | ABool true => if prefix "Authenticate" name then Some {| g_auth := true; g_block := g_block g |} else Some g
           | ABool false => if String.eqb name "Blocked" then Some {| g_auth := g_auth g; g_block := true |} else Some g
           | _ => Some g
           end
       | _ => Some g
       end.

(* ---------------- C10: exactly one outcome ---------------- *)
Record wstate := { w_status : list nat; w_writes : nat; w_location : option string; w_first_newid : option string; w_denied : bool }.
Definition w0 : wstate := {| w_status := []; w_writes := 0; w_location := None; w_first_newid := None; w_denied := false |}.
Definition write_step (w : wstate) (e : ev) (x : ans) : option wstate :=
  match e with
  | EWriteHeader n => match w_status w with
                      | [] => Some {| w_status := [n]; w_writes := w_writes w; w_location := w_location w; w_first_newid := w_first_newid w; w_denied := w_denied w |}
                      | _ => None                                  (* a second status *)
                      end
  | EWrite _ => match w_status w with
                | [] => None                                        (* body before the status *)
                | _ => Some {| w_status := w_status w; w_writes := S (w_writes w); w_location := w_location w; w_first_newid := w_first_newid w; w_denied := w_denied w |}
                end
  | ESetHeader k v => match w_status w with
                      | [] => Some (if String.eqb k "Location"
                                    then {| w_status := w_status w; w_writes := w_writes w; w_location := Some v; w_first_newid := w_first_newid w; w_denied := w_denied w |} else w)
                      | _ => None                                   (* header after the status *)
                      end
  | EDb op _ => if String.eqb op "NewID" then
                  match w_first_newid w, x with
                  | None, AIri i => Some {| w_status := w_status w; w_writes := w_writes w; w_location := w_location w; w_first_newid := Some i; w_denied := w_denied w |}
                  | _, _ => Some w
                  end
                else Some w
  | EApp name _ => match x with
                    | ABool false => if prefix "Authenticate" name
                                     then Some {| w_status := w_status w; w_writes := w_writes w; w_location := w_location w; w_first_newid := w_first_newid w; w_denied := true |}
                                     else Some w
                    | _ => Some w
                    end
  | _ => Some w
  end.

(* the three legal final states, with the documented statuses *)
Definition outcome_ok_gen (strict_location : bool) (handled : bool) (result : string) (w : wstate) : bool :=
  if negb handled then match w_status w with [] => Nat.eqb (w_writes w) 0 | _ => false end
  else if String.eqb result "ok" then
    (* the application's Authenticate* callback answered "not authenticated": it wrote the response itself *)
    if w_denied w then match w_status w with [] => true | _ => false end else
    match w_status w with
    | [n] => (Nat.eqb n 200 || Nat.eqb n 201 || Nat.eqb n 400 || Nat.eqb n 403 || Nat.eqb n 405 || Nat.eqb n 410) &&
             (negb (Nat.eqb n 201) || match w_location w, w_first_newid w with Some l, Some i => negb strict_location || String.eqb l i | Some _, None => negb strict_location | _, _ => false end)
    | _ => false
    end
  else match w_status w with
       | [] => true
       | [403] => false   (* a 403 is written only together with a nil error *)
       | _ => false
       end.

(* strict: the Location of a 201 is the first id generated for this request (the new activity's);
   weak: a Location was set before the 201 *)
Definition outcome_ok := outcome_ok_gen true.
Definition outcome_ok_weak := outcome_ok_gen false.

(* ---------------- C20: served bodies, headers, status ---------------- *)
From Coq Require Import ZArith.
From Verif Require Import Base.Time Pub.Calls Pub.Value Pub.Util Pub.SideEffect Pub.BaseActor.

Record sstate := { s_page : option json; s_now : option Z }.
Definition s0 : sstate := {| s_page := None; s_now := None |}.

(* what each endpoint must write for the value the application supplied *)
Definition served_value (entry : string) (p : json) : option json :=
  if String.eqb entry "getinbox" then match dedupe_ordered_items p with Ok p' => Some p' | _ => None end
  else if String.eqb entry "getoutbox" then Some p
  else Some (clear_sensitive (S (jdepth p)) p).

Definition serve_step (entry : string) (st : sstate) (e : ev) (x : ans) : option sstate :=
  match e with
  | EApp name _ =>
      if String.eqb name "GetInbox" || String.eqb name "GetOutbox" then
        match x with AJson j => Some {| s_page := Some j; s_now := s_now st |} | _ => Some st end
      else Some st
  | EDb op _ =>
      if String.eqb op "Get" && String.eqb entry "handler" then
        match x with AJson j => Some {| s_page := Some j; s_now := s_now st |} | _ => Some st end
      else Some st
  | ENow => match x with AZ t => Some {| s_page := s_page st; s_now := Some t |}
            | _ => Some {| s_page := s_page st; s_now := Some 0%Z |}   (* a Clock cannot answer anything but a time; mirrors the model's default *)
            end
  | ESetHeader k v =>
      if String.eqb k "Content-Type" then (if String.eqb v content_type_value then Some st else None)
      else if String.eqb k "Date" then match s_now st with Some t => if String.eqb v (http_date t) then Some st else None | None => None end
      else if String.eqb k "Digest" then (if String.eqb v digest_placeholder then Some st else None)
      else Some st
  | EWriteHeader n =>
      if String.eqb entry "handler" then
        match s_page st with
        | Some p => if Nat.eqb n (if is_or_extends (type_name p) "Tombstone" then 410 else 200) then Some st else None
        | None => None
        end
      else Some st
  | EWrite b =>
      match s_page st with
      | Some p => match served_value entry p with
                  | Some v => if jeqb b (canon (streams_serialize v)) then Some st else None
                  | None => None
                  end
      | None => None
      end
  | _ => Some st
  end.

(* ---------------- C03: hidden recipients ---------------- *)
(* forwarding: the received activity is passed on unchanged and is outside C03 (it did not originate here) *)
Definition hidden_step (entry : string) (in_fwd : bool) (e : ev) (x : ans) : option bool :=
  match e with
  | EDb op _ => Some (in_fwd || (String.eqb op "Exists" && String.eqb entry "postinbox"))
  | EBatchDeliver p _ => if in_fwd || no_hidden p then Some in_fwd else None
  | EWrite b => if String.eqb entry "handler" then (if deep_no_hidden (S (jdepth b)) b then Some in_fwd else None) else Some in_fwd
  | _ => Some in_fwd
  end.

(* ---------------- C05: stored, listed at the front exactly once, only then delivered / answered ---------------- *)
Record ostate := { o_created : option string;   (* id of the value the last successful Database.Create stored *)
                   o_page : option json;        (* the outbox page GetOutbox last returned *)
                   o_set : nat }.               (* 0 = outbox not yet written, 1 = written successfully, 2 = write failed *)
Definition o0 : ostate := {| o_created := None; o_page := None; o_set := 0 |}.

Definition ord_step (s : ostate) (e : ev) (x : ans) : option ostate :=
  match e with
  | EDb op args =>
      if String.eqb op "Create" then
        Some {| o_created := match args, x with [a], AOk => Some (id_str a) | _, _ => None end; o_page := o_page s; o_set := o_set s |}
      else if String.eqb op "GetOutbox" then
        Some {| o_created := o_created s; o_page := match x with AJson p => Some p | _ => None end; o_set := o_set s |}
      else if String.eqb op "SetOutbox" then
        match args, o_created s, o_page s with
        | [page], Some i, Some cur =>
            (* the page written is the page read with the id of the activity just stored put at the front *)
            if Nat.eqb (o_set s) 0 && jeqb page (canon (prepend_iri "orderedItems" i cur))
            then Some {| o_created := o_created s; o_page := o_page s; o_set := match x with AOk => 1 | _ => 2 end |}
            else None
        | _, _, _ => None
        end
      else Some s
  | EBatchDeliver _ _ => if Nat.eqb (o_set s) 1 then Some s else None
  | ESetHeader k v =>
      if String.eqb k "Location" then
        match o_created s with Some i => if String.eqb v i && Nat.eqb (o_set s) 1 then Some s else None | None => None end
      else Some s
  | EWriteHeader n => if Nat.eqb n 201 then (if Nat.eqb (o_set s) 1 then Some s else None) else Some s
  | _ => Some s
  end.

(* ---------------- C16 / C04: Add and Remove touch only owned target collections, with exactly the documented change ---------------- *)
From Verif Require Import Pub.EffectSpec.
Inductive eff_kind := KAdd (ids : list string) | KRemove (ids : list string).
Record estate := { e_owns : option bool;   (* the answer to Owns for the current target *)
                   e_got : option json }.  (* the target as Get returned it *)
Definition e0 : estate := {| e_owns := None; e_got := None |}.

Definition eff_expected (kind : eff_kind) (tp : json) : option json :=
  match collection_prop tp with
  | Ok cp => match kind with
             | KAdd ids => Some (add_spec cp ids tp)
             | KRemove ids => match remove_spec cp ids tp with Ok tp' => Some tp' | _ => None end
             end
  | _ => None
  end.

Definition eff_step (kind : eff_kind) (s : estate) (e : ev) (x : ans) : option estate :=
  match e with
  | EDb op args =>
      if String.eqb op "Owns" then Some {| e_owns := match x with ABool b => Some b | _ => None end; e_got := None |}
      else if String.eqb op "Get" then Some {| e_owns := e_owns s; e_got := match x with AJson j => Some j | _ => None end |}
      else if String.eqb op "Update" then
        match args, e_owns s, e_got s with
        | [v], Some true, Some tp =>
            match eff_expected kind tp with
            | Some want => if jeqb v (canon want) then Some e0 else None
            | None => None
            end
        | _, _, _ => None
        end
      else if String.eqb op "Create" || String.eqb op "Delete" || String.eqb op "SetOutbox" || String.eqb op "SetInbox" then None
      else Some s
  | _ => Some s
  end.

(* ---------------- C04: Like / Announce touch only owned objects, putting the activity id at the front of likes / shares ---------------- *)
From Verif Require Import Pub.Fed.
Definition own_step (cp id : string) (s : estate) (e : ev) (x : ans) : option estate :=
  match e with
  | EDb op args =>
      if String.eqb op "Owns" then Some {| e_owns := match x with ABool b => Some b | _ => None end; e_got := None |}
      else if String.eqb op "Get" then Some {| e_owns := e_owns s; e_got := match x with AJson j => Some j | _ => None end |}
      else if String.eqb op "Update" then
        match args, e_owns s, e_got s with
        | [v], Some true, Some t =>
            match prepend_on cp id t with
            | Ok want => if jeqb v (canon want) then Some e0 else None
            | _ => None
            end
        | _, _, _ => None
        end
      else if String.eqb op "Create" || String.eqb op "Delete" || String.eqb op "SetOutbox" || String.eqb op "SetInbox" then None
      else Some s
  | EBatchDeliver _ _ => None
  | _ => Some s
  end.

(* ---------------- C06: Accept updates following only for a verified stored Follow; Undo examines the undone activities ---------------- *)
Record astate := { a_me : option string;    (* ActorForInbox *)
                   a_got : option json }.   (* the stored value Get last returned *)
Definition a0 : astate := {| a_me := None; a_got := None |}.

(* the stored Follow was made by this actor and names every accepting actor as its object *)
Definition follow_verified (me : string) (t : json) (accepting : list json) : bool :=
  is_or_extends (type_name t) "Follow" &&
  match (match elems "actor" t with None => Ok false | Some l => names_me "actor" me l end) with Ok true => true | _ => false end &&
  match to_ids "actor" accepting, ids_of "object" t with
  | Ok ids, Ok objs => forallb (fun i => mem i objs) ids
  | _, _ => false
  end.

Definition acc_step (accepting : list json) (s : astate) (e : ev) (x : ans) : option astate :=
  match e with
  | EDb op args =>
      if String.eqb op "ActorForInbox" then Some {| a_me := match x with AIri i => Some i | _ => None end; a_got := a_got s |}
      else if String.eqb op "Get" then Some {| a_me := a_me s; a_got := match x with AJson j => Some j | _ => None end |}
      else if String.eqb op "Update" then
        match a_me s, a_got s with
        | Some me, Some t => if follow_verified me t accepting then Some s else None
        | _, _ => None
        end
      else if String.eqb op "Create" || String.eqb op "Delete" || String.eqb op "SetOutbox" then None
      else Some s
  | EBatchDeliver _ _ => None
  | _ => Some s
  end.

(* the documents dereferenced and decoded so far, latest first *)
Definition seen_step (s : list json) (e : ev) (x : ans) : option (list json) :=
  match e, x with
  | EDeref _, AJson j => match to_type j with Ok t => Some (t :: s) | _ => Some s end
  | _, _ => Some s
  end.

(* ---------------- C17: inbox forwarding happens only under its three conditions, once, unchanged ---------------- *)
Record fstate := { f_exists : option bool;              (* the answer to Exists for the activity id *)
                   f_created : nat;                     (* Create calls for the activity: 0, or 1 (2 = one that failed) *)
                   f_cols : list (string * json);       (* the owned collections loaded (Get answers that are collections) *)
                   f_asked : bool;                      (* MaxInboxForwardingRecursionDepth was consulted: the value search is on *)
                   f_owned_value : bool;                (* Owns answered true during the value search *)
                   f_filter : option (list string);     (* what FilterForwarding returned *)
                   f_sent : bool }.
Definition f0 : fstate := {| f_exists := None; f_created := 0; f_cols := []; f_asked := false; f_owned_value := false; f_filter := None; f_sent := false |}.

Definition is_collection_value (t : json) : bool :=
  (is_or_extends (type_name t) "OrderedCollection" && vhas t "orderedItems")
  || (negb (is_or_extends (type_name t) "OrderedCollection") && is_or_extends (type_name t) "Collection" && vhas t "items").

Definition fwd_step (a : json) (s : fstate) (e : ev) (x : ans) : option fstate :=
  match e with
  | EDb op args =>
      if String.eqb op "Exists" then
        match f_exists s with
        | None => Some {| f_exists := match x with ABool b => Some b | _ => Some true end; f_created := f_created s; f_cols := f_cols s; f_asked := f_asked s;
                          f_owned_value := f_owned_value s; f_filter := f_filter s; f_sent := f_sent s |}
        | Some _ => None
        end
      else if String.eqb op "Create" then
        match args, f_exists s, f_created s with
        | [v], Some false, 0 => if jeqb v (canon a) then
              Some {| f_exists := f_exists s; f_created := match x with AOk => 1 | _ => 2 end; f_cols := f_cols s; f_asked := f_asked s;
                      f_owned_value := f_owned_value s; f_filter := f_filter s; f_sent := f_sent s |} else None
        | _, _, _ => None
        end
      else if String.eqb op "Get" then
        match args, x with
        | [JStr i], AJson t => if is_collection_value t && negb (f_asked s) then
              Some {| f_exists := f_exists s; f_created := f_created s; f_cols := f_cols s ++ [(i, t)]; f_asked := f_asked s;
                      f_owned_value := f_owned_value s; f_filter := f_filter s; f_sent := f_sent s |} else Some s
        | _, _ => Some s
        end
      else if String.eqb op "Owns" then
        match x with
        | ABool true => if f_asked s then Some {| f_exists := f_exists s; f_created := f_created s; f_cols := f_cols s; f_asked := true;
                                                  f_owned_value := true; f_filter := f_filter s; f_sent := f_sent s |} else Some s
        | _ => Some s
        end
      else if String.eqb op "Update" || String.eqb op "Delete" || String.eqb op "SetOutbox" || String.eqb op "SetInbox" then None
      else Some s
  | EApp n args =>
      if String.eqb n "MaxInboxForwardingRecursionDepth" then
        match f_cols s with [] => None | _ => Some {| f_exists := f_exists s; f_created := f_created s; f_cols := f_cols s; f_asked := true;
                                                      f_owned_value := f_owned_value s; f_filter := f_filter s; f_sent := f_sent s |} end
      else if String.eqb n "FilterForwarding" then
        if f_owned_value s && jsons_eqb args [JArr (map (fun c => JStr (fst c)) (f_cols s)); canon a] then
          Some {| f_exists := f_exists s; f_created := f_created s; f_cols := f_cols s; f_asked := f_asked s;
                  f_owned_value := f_owned_value s; f_filter := match x with AIris l => Some l | _ => None end; f_sent := f_sent s |}
        else None
      else Some s
  | EBatchDeliver p r =>
      match f_filter s with
      | Some to_send =>
          if Nat.eqb (f_created s) 1 && negb (f_sent s) && jeqb p (canon (streams_serialize a)) &&
             match forwarding_recipients to_send (f_cols s) with Ok want => list_eqb r want | _ => false end
          then Some {| f_exists := f_exists s; f_created := f_created s; f_cols := f_cols s; f_asked := f_asked s;
                       f_owned_value := f_owned_value s; f_filter := f_filter s; f_sent := true |}
          else None
      | None => None
      end
  | _ => Some s
  end.
