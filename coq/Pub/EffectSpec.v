(* C16 (and the shared add/remove of C04): the documented effect of each client activity on a stored value,
   as pure functions.  The model programs call exactly these functions; Proofs/EffectProofs.v says what they do
   member by member; the trace judge compares every Database.Update the real code issues with them. *)
From Coq Require Import String List Bool Arith ZArith.
From Verif Require Import Base.ListX Base.Json Base.Free Pub.Events Pub.Value.
Import ListNotations.
Open Scope string_scope.
Open Scope list_scope.

Definition null_keys (j : json) : list string :=
  map fst (filter (fun kv => match snd kv with JNull => true | _ => false end) (jfields j)).
Definition overlay (stored supplied : json) : json :=
  fold_left (fun acc kv => jset (fst kv) (snd kv) acc) (jfields supplied) stored.
Definition remove_keys (ks : list string) (m : json) : json := fold_left (fun acc k => jremove k acc) ks m.

(* Update: the supplied top-level members replace the stored ones, the members given as null in the raw request go *)
Definition update_merge (stored supplied raw_obj : json) : json := remove_keys (null_keys raw_obj) (overlay stored supplied).
Definition update_spec (stored supplied raw_obj : json) : res json := to_type (update_merge stored supplied raw_obj).

(* Add: the object ids appended to the collection property *)
Definition add_spec (cp : string) (op_ids : list string) (tp : json) : json :=
  match op_ids with
  | [] => (match elems cp tp with None => jset cp (JArr []) tp | Some _ => tp end)
  | _ => set_elems cp (elems0 cp tp ++ map JStr op_ids) tp
  end.

(* Remove: every entry whose id is among the object ids goes *)
Fixpoint remove_ids (cp : string) (op_ids : list string) (l : list json) : res (list json) :=
  match l with
  | [] => Ok []
  | e :: r => match to_id cp e with
              | Ok i => if is_nil i then Panic "remove: nil id" else
                        match remove_ids cp op_ids r with
                        | Ok r' => Ok (if mem i op_ids then r' else e :: r')
                        | x => x end
              | Err x => Err x
              | Panic s => Panic s
              end
  end.
Definition remove_spec (cp : string) (op_ids : list string) (tp : json) : res json :=
  match elems cp tp with
  | None => Ok tp
  | Some l => match remove_ids cp op_ids l with Ok l' => Ok (set_elems cp l' tp) | Err x => Err x | Panic s => Panic s end
  end.

(* Like: the object ids, each put at the front in turn *)
Definition like_spec (ids : list string) (liked : json) : json :=
  set_elems "items" (map JStr (rev ids) ++ elems0 "items" liked) liked.
