(* Smart constructors for the calls package pub makes, and loop combinators. *)
From Coq Require Import String List Bool Arith ZArith.
From Verif Require Import Base.ListX Base.Json Base.Free Pub.Events.
Import ListNotations.
Open Scope string_scope.
Open Scope list_scope.
Open Scope prog_scope.

Definition lock (i : string) : prog (res unit) :=
  x <- call (ELock i) ;; match x with AOk => ok tt | _ => fail EGeneric end.
(* Go ignores Unlock's error everywhere *)
Definition unlock (i : string) : prog unit := call (EUnlock i) ;;; ret tt.
(* a Lock whose error is ignored (federating follow, second Lock of the inbox) *)
Definition lock_ignoring_error (i : string) : prog unit := call (ELock i) ;;; ret tt.

Definition db (op : string) (args : list json) : prog ans := call (EDb op (map canon args)).
Definition db_unit op args : prog (res unit) := x <- db op args ;; match x with AOk => ok tt | _ => fail EGeneric end.
Definition db_bool op args : prog (res bool) := x <- db op args ;; match x with ABool b => ok b | _ => fail EGeneric end.
Definition db_iri op args : prog (res string) := x <- db op args ;; match x with AIri i => ok i | _ => fail EGeneric end.
Definition db_opt_iri op args : prog (res (option string)) :=
  x <- db op args ;; match x with AIri i => ok (Some i) | ANone => ok None | _ => fail EGeneric end.
Definition db_json op args : prog (res json) := x <- db op args ;; match x with AJson j => ok j | _ => fail EGeneric end.
Definition db_opt_json op args : prog (res (option json)) :=
  x <- db op args ;; match x with AJson j => ok (Some j) | ANone => ok None | _ => fail EGeneric end.

Definition app (name : string) (args : list json) : prog ans := call (EApp name (map canon args)).
Definition app_unit name args : prog (res unit) := x <- app name args ;; match x with AOk => ok tt | _ => fail EGeneric end.

Definition new_transport (box : string) : prog (res unit) :=
  x <- call (ENewTransport box) ;; match x with AOk => ok tt | _ => fail EGeneric end.

Inductive deref_ans := DDoc (j : json) | DNotJson | DFailed.
Definition dereference (i : string) : prog deref_ans :=
  x <- call (EDeref i) ;; ret (match x with AJson j => DDoc j | ANotJson => DNotJson | _ => DFailed end).

(* streams.Serialize rebuilds the top-level @context (removed here: the harness removes it from what it
   records) and deletes @context from child objects, through object nesting only *)
Fixpoint clean_ctx (fuel : nat) (j : json) : json :=
  match fuel with
  | O => j
  | S f =>
      match j with
      | JObj m => JObj (map (fun kv => (fst kv, match snd kv with JObj _ => clean_ctx f (jremove "@context" (snd kv)) | v => v end)) m)
      | _ => j
      end
  end.
Fixpoint jdepth1 (j : json) : nat :=
  match j with
  | JArr l => S (fold_right (fun x acc => Nat.max (jdepth1 x) acc) 0 l)
  | JObj m => S (fold_right (fun kv acc => Nat.max (jdepth1 (snd kv)) acc) 0 m)
  | _ => 0
  end.
Definition streams_serialize (v : json) : json := clean_ctx (S (jdepth1 v)) (jremove "@context" v).

Definition batch_deliver (payload : json) (rcpts : list string) : prog (res unit) :=
  x <- call (EBatchDeliver (canon (streams_serialize payload)) rcpts) ;; match x with AOk => ok tt | _ => fail EGeneric end.

Definition write_header (n : nat) : prog unit := call (EWriteHeader n) ;;; ret tt.
Definition set_header (k v : string) : prog unit := call (ESetHeader k v) ;;; ret tt.
Definition write_body (b : json) : prog unit := call (EWrite (canon (streams_serialize b))) ;;; ret tt.
Definition now : prog Z := x <- call ENow ;; ret (match x with AZ z => z | _ => 0%Z end).

(* for x in l { if err := f x; err != nil { return err } } *)
Fixpoint foreach {A} (l : list A) (f : A -> prog (res unit)) : prog (res unit) :=
  match l with
  | [] => ok tt
  | x :: r => _ <-? f x ;; foreach r f
  end.

(* accumulate results, stopping at the first error *)
Fixpoint mapm {A B} (l : list A) (f : A -> prog (res B)) : prog (res (list B)) :=
  match l with
  | [] => ok []
  | x :: r => y <-? f x ;; ys <-? mapm r f ;; ok (y :: ys)
  end.

Definition lift {A} (r : res A) : prog (res A) := Ret r.
