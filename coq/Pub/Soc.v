(* Model of pub/social_wrapped_callbacks.go (tree with the fix: commits). *)
From Coq Require Import String List Bool Arith.
From Verif Require Import Base.ListX Base.Json Base.Free Base.Time Pub.Events Pub.Calls Pub.Value Pub.EffectSpec Pub.Util Pub.SideEffect Pub.Fed.
Import ListNotations.
Open Scope string_scope.
Open Scope list_scope.
Open Scope prog_scope.

Section Soc.
  Variable cfg : config.
  Variable outbox : string.
  Variable raw : json.                          (* the raw JSON of the posted activity *)
  Variable perm : list string -> list string.   (* Go map iteration order *)

  Definition swrapped (name : string) (a : json) : prog (res unit) :=
    if mem name (c_soc_wrapped cfg) then app_unit ("Wrapped:" ++ name)%string [a] else ok tt.

  (* attributedTo ids per object element (None = the element has no attributedTo property / is not a value) *)
  Fixpoint attributed (l : list json) : res (list json * list (option (list string))) :=
    match l with
    | [] => Ok ([], [])
    | e :: r =>
        let here := match e_type "object" e with
                    | Some t => if vhas t "attributedTo" then
                                  match ids_of "attributedTo" t with
                                  | Ok ids => Ok (match elems "attributedTo" t with None => jset "attributedTo" (JArr []) t | Some _ => t end, Some ids)
                                  | Err x => Err x
                                  | Panic s => Panic s
                                  end
                                else Ok (t, None)
                    | None => Ok (e, None)
                    end in
        match here with
        | Ok (e', ids) => match attributed r with
                          | Ok (r', idss) => Ok (e' :: r', ids :: idss)
                          | Err x => Err x | Panic s => Panic s end
        | Err x => Err x
        | Panic s => Panic s
        end
    end.

  Definition create (a : json) : prog (res (json * unit)) :=
    if object_required a then fail EObjectRequired else
    actor_ids <-? lift (ids_of "actor" a) ;;
    at_ <-? lift (attributed (elems0 "object" a)) ;;
    let '(objs, attr_ids) := at_ in
    (* missing actors onto every object's attributedTo *)
    let objs1 := map (fun t => match t with (o, Some ids) => append_iris "attributedTo" (perm (missing ids (uniq actor_ids))) o | (o, None) => o end)
                     (combine objs attr_ids) in
    let a1 := set_elems "object" objs1 a in
    (* missing attributedTo ids onto the actor property, which is created if the Create came without one (fix F25) *)
    let a2 := fold_left (fun acc ids => match ids with Some l => append_iris "actor" (perm (missing actor_ids (uniq l))) acc | None => acc end) attr_ids a1 in
    a3 <-? lift (normalize_recipients perm a2) ;;
    _ <-? foreach (elems0 "object" a3) (fun e =>
            match e_type "object" e with
            | None => panic "social create: object is not a value"
            | Some obj => id <-? lift (get_id obj) ;; with_lock_deferred id (db_unit "Create" [obj])
            end) ;;
    _ <-? swrapped "Create" a3 ;;
    ok (a3, tt).

  (* fix F10: the members given as JSON null in the raw object at the same index *)
  Definition raw_object_at (idx : nat) : json :=
    match jget "object" raw with
    | Some (JArr l) => nth idx l JNull
    | Some x => if Nat.eqb idx 0 then x else JNull
    | None => JNull
    end.
  Fixpoint update_loop (idx : nat) (l : list json) (ids : list string) : prog (res unit) :=
    match l, ids with
    | e :: r, id :: ids' =>
        _ <-? with_lock_deferred id (
                t <-? db_json "Get" [JStr id] ;;
                match e_type "object" e with
                | None => fail EGeneric
                | Some supplied =>
                    new_t <-? lift (update_spec t supplied (raw_object_at idx)) ;;
                    db_unit "Update" [new_t]
                end) ;;
        update_loop (S idx) r ids'
    | _, _ => ok tt
    end.

  Definition update (a : json) : prog (res unit) :=
    if object_required a then fail EObjectRequired else
    ids <-? lift (ids_of "object" a) ;;
    _ <-? update_loop 0 (elems0 "object" a) ids ;;
    swrapped "Update" a.

  Definition delete (a : json) : prog (res unit) :=
    if object_required a then fail EObjectRequired else
    ids <-? lift (ids_of "object" a) ;;
    _ <-? foreach ids (fun id =>
            with_lock_deferred id (
              t <-? db_json "Get" [JStr id] ;;
              n <- now ;;
              db_unit "Update" [to_tombstone t id (rfc3339_utc n)])) ;;
    swrapped "Delete" a.

  Definition follow (a : json) : prog (res unit) :=
    if object_required a then fail EObjectRequired else swrapped "Follow" a.

  Definition add_cb (a : json) : prog (res unit) :=
    if object_required a then fail EObjectRequired else
    if target_required a then fail ETargetRequired else
    _ <-? add a ;; swrapped "Add" a.

  Definition remove_cb (a : json) : prog (res unit) :=
    if object_required a then fail EObjectRequired else
    if target_required a then fail ETargetRequired else
    _ <-? remove a ;; swrapped "Remove" a.

  Definition like (a : json) : prog (res unit) :=
    if object_required a then fail EObjectRequired else
    _ <-? lock outbox ;;
    x <- db_iri "ActorForOutbox" [JStr outbox] ;;
    unlock outbox ;;;
    actor <-? lift x ;;
    with_lock_deferred actor (
      liked <-? db_json "Liked" [JStr actor] ;;
      ids <-? lift (to_ids "object" (elems0 "object" a)) ;;
      _ <-? db_unit "Update" [like_spec ids liked] ;;
      swrapped "Like" a).

  Definition undo (a : json) : prog (res unit) :=
    if object_required a then fail EObjectRequired else
    _ <-? must_actors_match outbox a ;;
    swrapped "Undo" a.

  Definition block (a : json) : prog (res unit) :=
    if object_required a then fail EObjectRequired else swrapped "Block" a.

  Definition soc_defaults : list string := ["Create"; "Update"; "Delete"; "Follow"; "Add"; "Remove"; "Like"; "Undo"; "Block"].

  (* sideEffectActor.PostOutbox: returns (activity as possibly normalised, deliverable) *)
  (* the Social side effect for the activity: (activity as possibly normalised, deliverable) *)
  Definition soc_callbacks (a : json) : prog (res (json * bool)) :=
    if c_social cfg then
      _ <-? app_unit "SocialCallbacks" [] ;;
      let ty := type_name a in
      if mem ty (c_soc_other cfg) then (_ <-? app_unit ("Other:" ++ ty)%string [a] ;; ok (a, true))
      else if String.eqb ty "Create" then (x <-? create a ;; ok (fst x, true))
      else if String.eqb ty "Update" then (_ <-? update a ;; ok (a, true))
      else if String.eqb ty "Delete" then (_ <-? delete a ;; ok (a, true))
      else if String.eqb ty "Follow" then (_ <-? follow a ;; ok (a, true))
      else if String.eqb ty "Add" then (_ <-? add_cb a ;; ok (a, true))
      else if String.eqb ty "Remove" then (_ <-? remove_cb a ;; ok (a, true))
      else if String.eqb ty "Like" then (_ <-? like a ;; ok (a, true))
      else if String.eqb ty "Undo" then (_ <-? undo a ;; ok (a, true))
      else if String.eqb ty "Block" then (_ <-? block a ;; ok (a, false))
      else (_ <-? app_unit "DefaultCallback" [a] ;; ok (a, true))
    else ok (a, true).

  Definition post_outbox (a : json) : prog (res (json * bool)) :=
    r <-? soc_callbacks a ;;
    _ <-? add_to_outbox outbox (fst r) ;;
    ok r.
End Soc.
