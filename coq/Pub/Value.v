(* ActivityStreams values as package pub sees them, on the serialised form:
   a value is a JSON object; a property is a member whose value is a scalar
   (one element) or an array; which members are properties of a type, and which
   element kinds a property admits, is read from the translator's tables. *)
From Coq Require Import String Ascii List Bool Arith.
From Verif Require Import Base.ListX Base.Json Vocab.Tables Streams.Hier Pub.Events.
From Verif Require Import Gen.TablesShipped.
Import ListNotations.
Open Scope string_scope.
Open Scope nat_scope.
Open Scope list_scope.

Definition T := types_shipped.
Definition P := props_shipped.

(* ---- IRIs: net/url accepts the string and finds a scheme ---- *)
Definition is_alpha (c : ascii) : bool :=
  let n := nat_of_ascii c in ((65 <=? n) && (n <=? 90)) || ((97 <=? n) && (n <=? 122)).
Definition is_scheme_char (c : ascii) : bool :=
  let n := nat_of_ascii c in is_alpha c || ((48 <=? n) && (n <=? 57)) || (n =? 43) || (n =? 45) || (n =? 46).
Fixpoint scheme_rest (l : list ascii) : bool :=
  match l with
  | [] => false
  | c :: r => if Ascii.eqb c ":" then true else if is_scheme_char c then scheme_rest r else false
  end.
(* what else makes url.Parse refuse a string: a % that is not followed by two hexadecimal digits, a control character, a
   blank in the authority (compared with net/url on generated and malformed strings by the check of C06: harness urls) *)
Definition is_hex (c : ascii) : bool :=
  let n := nat_of_ascii c in ((48 <=? n) && (n <=? 57)) || ((65 <=? n) && (n <=? 70)) || ((97 <=? n) && (n <=? 102)).
Fixpoint escapes_ok (l : list ascii) : bool :=
  match l with
  | [] => true
  | c :: r => if Ascii.eqb c "%" then match r with h1 :: h2 :: r' => is_hex h1 && is_hex h2 && escapes_ok r' | _ => false end
              else escapes_ok r
  end.
Definition no_ctl (l : list ascii) : bool := forallb (fun c => let n := nat_of_ascii c in (32 <=? n) && negb (n =? 127)) l.
Fixpoint authority_of (l : list ascii) : list ascii :=   (* after the first "//", up to the next / ? # *)
  match l with
  | a :: ((b :: r) as t) => if Ascii.eqb a "/" && Ascii.eqb b "/"
                            then (fix upto (x : list ascii) : list ascii :=
                                    match x with [] => [] | c :: y => if Ascii.eqb c "/" || Ascii.eqb c "?" || Ascii.eqb c "#" then [] else c :: upto y end) r
                            else authority_of t
  | _ => []
  end.
Definition has_scheme (s : string) : bool :=
  let l := list_ascii_of_string s in
  match l with
  | c :: r => is_alpha c && scheme_rest r && escapes_ok l && no_ctl l && forallb (fun x => negb (Ascii.eqb x " ")) (authority_of l)
  | [] => false
  end.

(* the nil *url.URL (an id / href member that is present but not an IRI) *)
Definition nil_iri : string := "<nil>".
Definition is_nil (i : string) : bool := String.eqb i nil_iri.

(* url.URL.Host of scheme://[userinfo@]host[:port][/...] *)
Fixpoint take_until (stop : ascii -> bool) (l : list ascii) : list ascii :=
  match l with [] => [] | c :: r => if stop c then [] else c :: take_until stop r end.
Fixpoint after_slashes (l : list ascii) : option (list ascii) :=
  match l with
  | c :: r => if Ascii.eqb c ":" then
                match r with
                | a :: b :: rest => if Ascii.eqb a "/" && Ascii.eqb b "/" then Some rest else Some []
                | _ => Some []
                end
              else after_slashes r
  | [] => None
  end.
Definition host_of (i : string) : string :=
  match after_slashes (list_ascii_of_string i) with
  | Some rest =>
      let auth := take_until (fun c => Ascii.eqb c "/" || Ascii.eqb c "?" || Ascii.eqb c "#") rest in
      (* drop userinfo *)
      let fix drop_user (l acc : list ascii) : list ascii :=
        match l with
        | [] => rev acc
        | c :: r => if Ascii.eqb c "@" then drop_user r [] else drop_user r (c :: acc)
        end in
      string_of_list_ascii (drop_user auth [])
  | None => ""
  end.

(* ---- types ---- *)
(* the name the value is decoded under: a single name, or - for an array of names - the first one that is a type of the
   vocabularies (the JSON resolver walks the names in order) *)
Definition first_known (known : string -> bool) (l : list json) : option string :=
  match find (fun e => match e with JStr s => known s | _ => false end) l with Some (JStr s) => Some s | _ => None end.
Definition jtype (o : json) : option string :=
  match jget "type" o with
  | Some (JStr s) => Some s
  | Some (JArr l) => first_known (fun s => mem s (type_names T)) l
  | _ => None
  end.
Definition type_name (o : json) : string := match jtype o with Some s => s | None => "" end.
Definition known_type (s : string) : bool := mem s (type_names T).
Definition has_prop (ty p : string) : bool :=
  match row T ty with Some r => mem p (t_fields r) | None => false end.
Definition vhas (o : json) (p : string) : bool := has_prop (type_name o) p.
(* streams.IsOrExtends<b>(value of type a) *)
Definition is_or_extends (a b : string) : bool := gen_is_or_extends T b a.
Definition is_activity (o : json) : bool := is_or_extends (type_name o) "Activity".

(* pub.Activity: the interface asserted by asValue.(Activity) *)
Definition activity_props : list string := ["actor"; "audience"; "bcc"; "bto"; "cc"; "object"; "to"].
Definition satisfies_activity (o : json) : bool :=
  forallb (fun p => match p with "id" | "type" => true | _ => vhas o p end) activity_props.

(* ---- properties ---- *)
Definition prop_row_of (p : string) : option prop_row := find_row p_name p P.
Definition admits (p kind : string) : bool :=
  match prop_row_of p with Some r => mem kind (p_deser r) | None => false end.

(* the elements of property p: None = the property is nil *)
Definition elems (p : string) (o : json) : option (list json) :=
  match jget p o with
  | None => None
  | Some (JArr l) => Some l
  | Some x => Some [x]
  end.
Definition elems0 (p : string) (o : json) : list json := match elems p o with Some l => l | None => [] end.

Definition e_is_iri (e : json) : bool := match e with JStr s => has_scheme s | _ => false end.
(* iter.GetType(): an embedded value whose type the property admits *)
Definition e_type (p : string) (e : json) : option json :=
  match e with
  | JObj _ => match jtype e with
              | Some t => if known_type t && admits p t then Some e else None
              | None => None
              end
  | _ => None
  end.
Definition e_iri (e : json) : string := match e with JStr s => s | _ => nil_iri end.

Definition canon_list (l : list json) : json := match l with [x] => x | _ => JArr l end.
Definition set_elems (p : string) (l : list json) (o : json) : json := jset p (canon_list l) o.
Definition append_iri (p i : string) (o : json) : json := set_elems p (elems0 p o ++ [JStr i]) o.
Definition prepend_iri (p i : string) (o : json) : json := set_elems p (JStr i :: elems0 p o) o.

(* pub.GetId *)
Definition get_id (v : json) : res string :=
  match jget "id" v with
  | Some (JStr s) => if has_scheme s then Ok s else Err EGeneric   (* fix F19: an id that is no IRI is an error, not a nil URL *)
  | Some _ => Err EGeneric
  | None =>
      if vhas v "href" then
        match jget "href" v with
        | Some (JStr s) => if has_scheme s then Ok s else Err EGeneric
        | Some _ => Err EGeneric
        | None => Err EGeneric
        end
      else Err EGeneric
  end.

(* pub.ToId on an element of property p *)
Definition to_id (p : string) (e : json) : res string :=
  match e_type p e with
  | Some v => get_id v
  | None => if e_is_iri e then Ok (e_iri e) else Err EGeneric
  end.

Fixpoint to_ids (p : string) (l : list json) : res (list string) :=
  match l with
  | [] => Ok []
  | e :: r => match to_id p e with
              | Ok i => match to_ids p r with Ok is => Ok (i :: is) | Err x => Err x | Panic s => Panic s end
              | Err x => Err x
              | Panic s => Panic s
              end
  end.

(* decoding drops a JSON null given for a known property (of the value and of every embedded value) *)
Definition known_key (ty k : string) : bool :=
  match row T ty with Some r => mem k (t_known r) | None => false end.
Fixpoint strip_nulls (fuel : nat) (j : json) : json :=
  match fuel with
  | O => j
  | S f =>
      match j with
      | JObj m =>
          match jtype j with
          | Some ty =>
              if known_type ty then
                JObj (map (fun kv => (fst kv, strip_nulls f (snd kv)))
                          (filter (fun kv => negb (match snd kv with JNull => known_key ty (fst kv) | _ => false end)) m))
              else j
          | None => j
          end
      | JArr l => JArr (map (strip_nulls f) l)
      | _ => j
      end
  end.
Fixpoint jdepth0 (j : json) : nat :=
  match j with
  | JArr l => S (fold_right (fun x acc => Nat.max (jdepth0 x) acc) 0 l)
  | JObj m => S (fold_right (fun kv acc => Nat.max (jdepth0 (snd kv)) acc) 0 m)
  | _ => 0
  end.

(* streams.ToType on a decoded JSON object: needs @context and a known "type" *)
Definition to_type (j : json) : res json :=
  match j with
  | JObj _ =>
      match jget "type" j with
      | None => Err EGeneric
      | Some (JStr s) => if jhas "@context" j then (if known_type s then Ok (strip_nulls (S (jdepth0 j)) j) else Err EUnmatchedType) else Err EGeneric
      | Some (JArr l) => if jhas "@context" j then (match first_known known_type l with Some _ => Ok (strip_nulls (S (jdepth0 j)) j) | None => Err EUnmatchedType end) else Err EGeneric
      | Some _ => Err EUnmatchedType
      end
  | _ => Err EGeneric
  end.
