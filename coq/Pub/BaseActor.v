(* Model of pub/base_actor.go and pub/handlers.go: the HTTP-level state machines. *)
From Coq Require Import String List Bool Arith ZArith.
From Verif Require Import Base.ListX Base.Json Base.Free Base.Time Pub.Events Pub.Calls Pub.Value Pub.Util Pub.SideEffect Pub.Fed Pub.Soc.
From Verif Require Import Gen.PubShipped.
Import ListNotations.
Open Scope string_scope.
Open Scope list_scope.
Open Scope prog_scope.

Inductive body := BNotJson | BJson (j : json).

Record request := {
  r_method : string;
  r_content_type : string;
  r_accept : string;
  r_body : body;
  r_id : string            (* requestId(r, scheme): scheme://host/path *)
}.

(* (handled, error) as the Actor methods return them *)
Definition outcome := (bool * res unit)%type.
Definition done (handled : bool) (r : res unit) : prog outcome := Ret (handled, r).

Definition content_type_value : string := "application/ld+json; profile=""https://www.w3.org/ns/activitystreams""".
Definition digest_placeholder : string := "SHA-256=<base64 sha256 of the body written>".

Definition add_response_headers (body : json) : prog unit :=
  (* http.Header.Set is not an observable call; the harness reports the headers when the status is written *)
  t <- now ;;
  set_header "Content-Type" content_type_value ;;;
  set_header "Date" (http_date t) ;;;
  set_header "Digest" digest_placeholder.

Definition authenticate (name : string) : prog (res bool) :=
  x <- app name [] ;; match x with ABool b => ok b | _ => fail EGeneric end.

Section Actor.
  Variable cfg : config.
  Variable perm : list string -> list string.

  (* ---- PostInboxScheme ---- *)
  Definition post_inbox_http (r : request) : prog outcome :=
    if negb (is_ap_post (r_method r) (r_content_type r)) then done false (Ok tt) else
    if negb (c_federating cfg) then write_header 405 ;;; done true (Ok tt) else
    au <- authenticate "AuthenticatePostInbox" ;;
    match au with
    | Err e => done true (Err e)
    | Panic s => done true (Panic s)
    | Ok false => done true (Ok tt)
    | Ok true =>
      match r_body r with
      | BNotJson => done true (Err EGeneric)
      | BJson j =>
        match to_type j with
        | Err EUnmatchedType => write_header 400 ;;; done true (Ok tt)
        | Err e => done true (Err e)
        | Panic s => done true (Panic s)
        | Ok a =>
          if negb (satisfies_activity a) then done true (Err EGeneric) else
          (* fix F14: an id that is absent or not an IRI is a bad request *)
          if negb (match jget "id" a with Some (JStr s) => has_scheme s | _ => false end) then write_header 400 ;;; done true (Ok tt) else
          h <- app_unit "PostInboxRequestBodyHook" [a] ;;
          match h with
          | Err e => done true (Err e)
          | Panic s => done true (Panic s)
          | Ok _ =>
            az <- authorize_post_inbox a ;;
            match az with
            | Err e => done true (Err e)
            | Panic s => done true (Panic s)
            | Ok false => done true (Ok tt)
            | Ok true =>
              p <- post_inbox cfg (r_id r) a ;;
              match p with
              | Err EObjectRequired | Err ETargetRequired => write_header 400 ;;; done true (Ok tt)
              | Err e => done true (Err e)
              | Panic s => done true (Panic s)
              | Ok _ =>
                f <- inbox_forwarding (r_id r) a ;;
                match f with
                | Ok _ => write_header 200 ;;; done true (Ok tt)
                | Err e => done true (Err e)
                | Panic s => done true (Panic s)
                end
              end
            end
          end
        end
      end
    end.

  (* ---- baseActor.deliver (shared by PostOutbox and Send) ---- *)
  Definition deliver_outbox (outbox : string) (v : json) (raw : option json) : prog (res json) :=
    a0 <-? (if is_activity v then ok v else wrap_in_create_for v outbox) ;;
    if negb (satisfies_activity a0) then fail EGeneric else
    a1 <-? add_new_ids a0 ;;
    let m := match raw with Some m => m | None => a1 end in
    po <-? post_outbox cfg outbox m perm a1 ;;
    let '(a2, deliverable) := po in
    if c_federating cfg && deliverable then (a3 <-? deliver outbox a2 ;; ok a3) else ok a2.

  Definition post_outbox_http (r : request) : prog outcome :=
    if negb (is_ap_post (r_method r) (r_content_type r)) then done false (Ok tt) else
    if negb (c_social cfg) then write_header 405 ;;; done true (Ok tt) else
    au <- authenticate "AuthenticatePostOutbox" ;;
    match au with
    | Err e => done true (Err e)
    | Panic s => done true (Panic s)
    | Ok false => done true (Ok tt)
    | Ok true =>
      match r_body r with
      | BNotJson => done true (Err EGeneric)
      | BJson j =>
        match to_type j with
        | Err EUnmatchedType => write_header 400 ;;; done true (Ok tt)
        | Err e => done true (Err e)
        | Panic s => done true (Panic s)
        | Ok v =>
          h <- app_unit "PostOutboxRequestBodyHook" [v] ;;
          match h with
          | Err e => done true (Err e)
          | Panic s => done true (Panic s)
          | Ok _ =>
            d <- deliver_outbox (r_id r) v (Some j) ;;
            match d with
            | Err EObjectRequired | Err ETargetRequired => write_header 400 ;;; done true (Ok tt)
            | Err e => done true (Err e)
            | Panic s => done true (Panic s)
            | Ok a => set_header "Location" (id_str a) ;;; write_header 201 ;;; done true (Ok tt)
            end
          end
        end
      end
    end.

  (* FederatingActor.Send *)
  Definition send (outbox : string) (v : json) : prog (res json) := deliver_outbox outbox v None.

  (* ---- GetInbox / GetOutbox ---- *)
  Definition serve_page (page : json) : prog outcome :=
    add_response_headers page ;;;
    write_header 200 ;;;
    write_body page ;;;
    done true (Ok tt).

  Definition get_inbox_http (r : request) : prog outcome :=
    if negb (is_ap_get (r_method r) (r_accept r)) then done false (Ok tt) else
    au <- authenticate "AuthenticateGetInbox" ;;
    match au with
    | Err e => done true (Err e)
    | Panic s => done true (Panic s)
    | Ok false => done true (Ok tt)
    | Ok true =>
      if negb (c_federating cfg) then done true (Err EGeneric) else   (* fix F11: no FederatingProtocol to ask *)
      x <- app "GetInbox" [] ;;
      match x with
      | AJson oc =>
          match dedupe_ordered_items oc with
          | Ok oc' => serve_page oc'
          | Err e => done true (Err e)
          | Panic s => done true (Panic s)
          end
      | _ => done true (Err EGeneric)
      end
    end.

  Definition get_outbox_http (r : request) : prog outcome :=
    if negb (is_ap_get (r_method r) (r_accept r)) then done false (Ok tt) else
    au <- authenticate "AuthenticateGetOutbox" ;;
    match au with
    | Err e => done true (Err e)
    | Panic s => done true (Panic s)
    | Ok false => done true (Ok tt)
    | Ok true =>
      x <- app "GetOutbox" [] ;;
      match x with
      | AJson oc => serve_page oc
      | _ => done true (Err EGeneric)
      end
    end.
End Actor.

(* ---- NewActivityStreamsHandler ---- *)
Definition handler_http (r : request) : prog outcome :=
  if negb (is_ap_get (r_method r) (r_accept r)) then done false (Ok tt) else
  let id := r_id r in
  lk <- lock id ;;
  match lk with
  | Err e => done true (Err e)
  | Panic s => done true (Panic s)
  | Ok _ =>
    x <- db_opt_json "Get" [JStr id] ;;
    unlock id ;;;
    match x with
    | Err e => done true (Err e)
    | Panic s => done true (Panic s)
    | Ok None => done true (Err ENotFound)
    | Ok (Some t) =>
        let t' := clear_sensitive (S (jdepth t)) t in
        add_response_headers t' ;;;
        write_header (if is_or_extends (type_name t') "Tombstone" then 410 else 200) ;;;
        write_body t' ;;;
        done true (Ok tt)
    end
  end.
