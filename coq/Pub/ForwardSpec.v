(* C17, the "if and only if": what inbox forwarding must do as a function of the world the server lives in - which IRIs it
   owns, what each IRI dereferences to, what is stored for an owned IRI, whether the activity was seen, the depth limit,
   the application's filter. *)
From Coq Require Import String List Bool Arith.
From Verif Require Import Base.ListX Base.Json Base.Free Pub.Events Pub.Calls Pub.Value Pub.Util Pub.SideEffect.
Import ListNotations.
Open Scope string_scope.
Open Scope list_scope.

Record fworld := {
  fw_owns : string -> bool;                    (* Database.Owns *)
  fw_deref : string -> deref_ans;              (* Transport.Dereference *)
  fw_get : string -> json;                     (* Database.Get of an owned IRI *)
  fw_seen : bool;                              (* Database.Exists for the activity's id *)
  fw_depth : nat;                              (* MaxInboxForwardingRecursionDepth; 0: no limit *)
  fw_filter : list json -> list string         (* FilterForwarding's choice, given the loaded collection ids and the activity *)
}.

(* ---- condition 3: an owned inReplyTo / object / target / tag value within the depth ---- *)
Definition fetched_of (w : fworld) (iris : list string) : list json :=
  flat_map (fun i => match fw_deref w i with DDoc j => match to_type j with Ok v => [v] | _ => [] end | _ => [] end) iris.
(* the values one level further down: the embedded ones, then the documents the IRIs dereference to *)
Definition next_values (w : fworld) (v : json) : list json :=
  fst (forwarding_values v) ++ fetched_of w (snd (forwarding_values v)).
(* Level w n a x: x lies n levels below a *)
Inductive Level (w : fworld) : nat -> json -> json -> Prop :=
| Level0 a : Level w 0 a a
| LevelS n a y x : In y (next_values w a) -> Level w n y x -> Level w (S n) a x.
Definition owned_id (w : fworld) (x : json) : bool := match get_id x with Ok i => fw_owns w i | _ => false end.
(* v names (by IRI or as an embedded value with that id) something this server owns *)
Definition names_owned (w : fworld) (v : json) : bool :=
  existsb (fw_owns w) (snd (forwarding_values v)) || existsb (owned_id w) (fst (forwarding_values v)).
Definition Reach (w : fworld) (depth : nat) (a : json) : Prop :=
  exists n x, n < depth /\ Level w n a x /\ names_owned w x = true.

(* the same, decidable *)
Fixpoint reach_b (w : fworld) (fuel : nat) (v : json) : bool :=
  match fuel with
  | O => false
  | S f => names_owned w v || existsb (reach_b w f) (next_values w v)
  end.

(* ---- condition 2: an owned Collection / OrderedCollection among to, cc, audience ---- *)
Definition is_collection_value (t : json) : bool :=
  (is_or_extends (type_name t) "OrderedCollection" && vhas t "orderedItems")
  || (negb (is_or_extends (type_name t) "OrderedCollection") && is_or_extends (type_name t) "Collection" && vhas t "items").
Definition addressed (a : json) : res (list string) :=
  match ids_of "to" a, ids_of "cc" a, ids_of "audience" a with
  | Ok t, Ok c, Ok u => Ok (t ++ c ++ u)
  | Ok _, Ok _, x => x | Ok _, x, _ => x | x, _, _ => x
  end.
Definition owned_collections (w : fworld) (l : list string) : list string :=
  filter (fun i => fw_owns w i && is_collection_value (fw_get w i)) l.

Definition effective_depth (w : fworld) : nat := if Nat.eqb (fw_depth w) 0 then 64 else fw_depth w.

(* forwarded iff: not seen, an owned collection addressed, an owned value within the depth *)
Definition must_forward (w : fworld) (a : json) : bool :=
  negb (fw_seen w) &&
  match addressed a with
  | Ok l => negb (Nat.eqb (length (owned_collections w l)) 0) && reach_b w (effective_depth w) a
  | _ => false
  end.
