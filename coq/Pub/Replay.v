(* One executed scenario as the harness records it, and the correspondence
   check: does the model program, given the recorded answers, issue exactly the
   recorded events and return the recorded result? *)
From Coq Require Import String List Bool Arith ZArith.
From Verif Require Import Base.ListX Base.Json Base.Free Pub.Events Pub.Calls Pub.Value Pub.SideEffect Pub.BaseActor.
Import ListNotations.
Open Scope string_scope.

Record run := {
  u_family : string;
  u_cfg : config;
  u_entry : string;
  u_req : request;
  u_send : json;
  u_trace : list (ev * ans);
  u_handled : bool;
  u_result : string;
  u_replay : bool            (* false: Go map iteration order can show in this run; it is judged by the set-level checkers only *)
}.

Definition id_perm (l : list string) : list string := l.

Definition model_of (u : run) : prog outcome :=
  let e := u_entry u in
  if String.eqb e "postinbox" then post_inbox_http (u_cfg u) (u_req u)
  else if String.eqb e "postoutbox" then post_outbox_http (u_cfg u) id_perm (u_req u)
  else if String.eqb e "getinbox" then get_inbox_http (u_cfg u) (u_req u)
  else if String.eqb e "getoutbox" then get_outbox_http (u_req u)
  else if String.eqb e "handler" then handler_http (u_req u)
  else bind (send (u_cfg u) id_perm (r_id (u_req u)) (u_send u))
            (fun r => Ret (true, match r with Ok _ => Ok tt | Err x => Err x | Panic s => Panic s end)).

Definition res_code (r : res unit) : string :=
  match r with
  | Ok _ => "ok"
  | Err EObjectRequired => "objreq"
  | Err ETargetRequired => "targetreq"
  | Err ENotFound => "notfound"
  | Err _ => "err"
  | Panic _ => "panic"
  end.

Inductive verdict :=
| VAgree
| VResult (model_handled : bool) (model_result : string)
| VMismatch (pos : nat) (expected : ev)
| VExtra (pos : nat).

Definition check_run (u : run) : verdict :=
  if negb (u_replay u) then VAgree else
  match replay ev_eqb (model_of u) (u_trace u) 0 with
  | RDone (h, r) => if Bool.eqb h (u_handled u) && String.eqb (res_code r) (u_result u) then VAgree else VResult h (res_code r)
  | RMismatch pos e => VMismatch pos e
  | RExtra pos => VExtra pos
  end.

(* class of an event, for attributing a disagreement to the properties it concerns *)
Definition ev_class (e : ev) : string :=
  match e with
  | ELock _ | EUnlock _ => "lock"
  | EDb _ _ => "db"
  | ENewTransport _ | EDeref _ => "transport"
  | EBatchDeliver _ _ => "deliver"
  | EApp _ _ => "app"
  | EWriteHeader _ | ESetHeader _ _ | EWrite _ => "response"
  | ENow => "clock"
  end.

Definition verdict_code (v : verdict) : nat * nat * string :=   (* (kind, position, class of the expected event) *)
  match v with
  | VAgree => (0, 0, "")
  | VResult _ r => (1, 0, r)
  | VMismatch pos e => (2, pos, ev_class e)
  | VExtra pos => (3, pos, "")
  end.

(* the agreement of a replayed run with the model makes the recorded trace a run of the model *)
Lemma check_run_sound u : check_run u = VAgree ->
  exists r, runs (model_of u) (u_trace u) (u_handled u, r) /\ res_code r = u_result u.
Proof.
  unfold check_run. destruct (u_replay u) eqn:Hrep; [|].
  2: { intros _. Abort.
Lemma check_run_sound u : u_replay u = true -> check_run u = VAgree ->
  exists r, runs (model_of u) (u_trace u) (u_handled u, r) /\ res_code r = u_result u.
Proof.
  intros Hrep. unfold check_run. rewrite Hrep. cbn [negb]. destruct (replay ev_eqb (model_of u) (u_trace u) 0) as [[h r]|pos e|pos] eqn:E; try discriminate.
  destruct (Bool.eqb h (u_handled u) && String.eqb (res_code r) (u_result u)) eqn:B; [|discriminate].
  intros _. apply andb_true_iff in B. destruct B as [B1 B2]. apply Bool.eqb_prop in B1. apply String.eqb_eq in B2.
  exists r. split; [|exact B2]. subst. eapply replay_runs; [exact ev_eqb_eq|exact E].
Qed.
