#!/bin/sh
# Offline build of the whole framework from files on disk: translators, Coq development (full .vo), harness.
set -e
cd "$(dirname "$0")"
export GOFLAGS=-mod=mod GOPROXY=off GOSUMDB=off GOTOOLCHAIN=local
if grep -rn --include='*.v' -E '\b(Admitted|admit|Axiom|Parameter|Conjecture)\b|Unset Guard|bypass_check|type-in-type' coq | grep -v '^coq/Gen/' ; then
  echo "setup: forbidden construct in the development"; exit 1
fi
mkdir -p tools/bin run evidence
(cd tools/translate && go build -o ../bin/translate .)
./tools/bin/translate -repo "${VERIF_REPO:-/repo}" -out "$(pwd)"
python3 tools/ontology/onto.py
(cd coq && coq_makefile -f _CoqProject -o Makefile && timeout 3000 make -j16)
cp "${VERIF_REPO:-/repo}/go.sum" tools/harness/go.sum
(cd tools/harness && go build -tags verif -o ../bin/harness .)
echo "setup: ok"
