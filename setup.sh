#!/bin/sh
# Offline build of the whole framework from files on disk: translators, Coq development (full .vo), harness.
set -e
cd "$(dirname "$0")"
export GOFLAGS=-mod=mod GOPROXY=off GOSUMDB=off GOTOOLCHAIN=local
if grep -rn --include='*.v' -E '\b(Admitted|admit|Axiom|Parameter|Conjecture)\b|Unset Guard|bypass_check|type-in-type' coq | grep -v '^coq/Gen/' ; then
  echo "setup: forbidden construct in the development"; exit 1
fi
# Variable / Hypothesis / Context only inside sections (outside one each would declare an axiom)
python3 - <<'PY' || { echo "setup: Variable / Hypothesis outside a section"; exit 1; }
import re, glob, sys
bad = []
for f in glob.glob('coq/**/*.v', recursive=True):
    if '/Gen/' in f or '/Run/' in f:
        continue
    depth, comment = 0, 0
    for i, l in enumerate(open(f)):
        t = l.strip()
        opens, closes = t.count('(*'), t.count('*)')
        if comment == 0 and not t.startswith('(*'):
            if re.match(r'Section\s+\w+\s*\.', t): depth += 1
            elif re.match(r'End\s+\w+\s*\.', t) and depth > 0: depth -= 1
            elif re.match(r'(Variable|Variables|Hypothesis|Hypotheses|Context)\b', t) and depth == 0: bad.append((f, i + 1, t[:70]))
        comment = max(0, comment + opens - closes)
for b in bad: print(b)
sys.exit(1 if bad else 0)
PY
mkdir -p tools/bin run evidence
(cd tools/translate && go build -o ../bin/translate .)
./tools/bin/translate -repo "${VERIF_REPO:-/repo}" -out "$(pwd)"
python3 tools/ontology/onto.py
(cd coq && coq_makefile -f _CoqProject -o Makefile && timeout 3000 make -j16)
cp "${VERIF_REPO:-/repo}/go.sum" tools/harness/go.sum
(cd tools/harness && go build -tags verif -o ../bin/harness .)
echo "setup: ok"
