#!/usr/bin/env python3
"""Runs the repository's test suite (guard off) and compares with /root/.vp/BASELINE.json stable_pass."""
import json, os, subprocess, sys
env = dict(os.environ, GOFLAGS="-mod=mod", GOPROXY="off", GOSUMDB="off", GOTOOLCHAIN="local")
repo = sys.argv[1] if len(sys.argv) > 1 else "/repo"
p = subprocess.run(["go", "test", "-json", "-vet=off", "-count=1", "-timeout", "25m", "./..."], cwd=repo, env=env, stdout=subprocess.PIPE, stderr=subprocess.STDOUT)
res = {}
for line in p.stdout.decode("utf-8", "replace").splitlines():
    try:
        e = json.loads(line)
    except ValueError:
        continue
    if e.get("Test") and e.get("Action") in ("pass", "fail", "skip"):
        res[e["Package"] + "::" + e["Test"]] = e["Action"]
base = json.load(open("/root/.vp/BASELINE.json"))["stable_pass"]
missing = [t for t in base if res.get(t) != "pass"]
print("baseline stable_pass: %d, passing now: %d, not passing: %d" % (len(base), len(base) - len(missing), len(missing)))
for t in missing[:20]:
    print("  NOT PASSING:", t, res.get(t))
sys.exit(1 if missing else 0)
