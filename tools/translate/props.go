package main

import (
	"fmt"
	"go/ast"
	"go/token"
	"path/filepath"
	"regexp"
	"strings"
)

// Member is one representation slot of a property element.
type Member struct {
	Field   string // activitystreamsCollectionMember
	GoType  string // vocab.ActivityStreamsCollection / string / time.Time ...
	Kind    string // canonical kind name: "T:ActivityStreams:Collection" or "V:string"
	HasFlag string // hasStringMember or ""
}

// PropInfo is everything read from one gen_property_*.go file.
type PropInfo struct {
	Name        string // JSON key: "likes"
	Vocab       string // directory: activitystreams
	VocabURI    string
	Struct      string // ActivityStreamsLikesProperty
	ElemStruct  string // iterator struct for non-functional, else = Struct
	Pkg         string
	Dir         string
	Functional  bool
	HasMap      bool     // consults m[propName+"Map"]
	Members     []Member // in struct order
	DeserChain  []string // kinds in the order the deserialiser tries them: "IRI", kinds..., "UNK"
	SerChain    []string // kinds in the order serialize tests them
	ClearFields []string // fields assigned by clear()/Clear()
	SettersOK   bool     // every Set<kind> body starts with clear()
	AliasedName bool     // Name() honours the alias
	MapName     bool     // Name() switches to <name>Map
	Template    map[string]string // method -> normalised body with identifiers abstracted (non-functional)
}

func readProp(repo, vocabDir, propDir string) *PropInfo {
	dir := filepath.Join(repo, "streams", "impl", vocabDir, propDir)
	ms, _ := filepath.Glob(filepath.Join(dir, "gen_property_*.go"))
	if len(ms) != 1 {
		shapeErr("%s: expected exactly one gen_property_*.go, found %d", dir, len(ms))
		if len(ms) == 0 {
			return nil
		}
	}
	f := parseFile(ms[0])
	pi := &PropInfo{Vocab: vocabDir, Dir: propDir, Pkg: f.Name.Name, Functional: true, Template: map[string]string{}}
	structs := map[string]*ast.StructType{}
	var order []string
	for _, d := range f.Decls {
		gd, ok := d.(*ast.GenDecl)
		if !ok || gd.Tok != token.TYPE {
			continue
		}
		for _, s := range gd.Specs {
			ts := s.(*ast.TypeSpec)
			if st, ok := ts.Type.(*ast.StructType); ok {
				structs[ts.Name.Name] = st
				order = append(order, ts.Name.Name)
			}
		}
	}
	for _, n := range order {
		if strings.HasSuffix(n, "PropertyIterator") {
			pi.Functional = false
			pi.ElemStruct = n
		} else if strings.HasSuffix(n, "Property") {
			pi.Struct = n
		}
	}
	if pi.Functional {
		pi.ElemStruct = pi.Struct
	}
	st := structs[pi.ElemStruct]
	if st == nil {
		shapeErr("%s: no element struct", ms[0])
		return nil
	}
	// members
	flags := map[string]bool{}
	for _, fl := range st.Fields.List {
		for _, nm := range fl.Names {
			if strings.HasPrefix(nm.Name, "has") && strings.HasSuffix(nm.Name, "Member") {
				flags[nm.Name] = true
			}
		}
	}
	for _, fl := range st.Fields.List {
		for _, nm := range fl.Names {
			n := nm.Name
			if !strings.HasSuffix(n, "Member") || flags[n] {
				continue
			}
			gt := norm(src(fl.Type))
			pi.Members = append(pi.Members, Member{Field: n, GoType: gt, Kind: kindOfGoType(n, gt)})
		}
	}
	fm := funcs(f)
	// element deserialiser
	var des *ast.FuncDecl
	if pi.Functional {
		for n, fd := range fm {
			if strings.HasPrefix(n, "Deserialize") && strings.HasSuffix(n, "Property") {
				des = fd
			}
		}
	} else {
		des = fm["deserialize"+pi.ElemStruct]
	}
	var top *ast.FuncDecl
	for n, fd := range fm {
		if strings.HasPrefix(n, "Deserialize") && strings.HasSuffix(n, "Property") {
			top = fd
		}
	}
	if des == nil || top == nil {
		shapeErr("%s: deserialiser missing", pi.Struct)
		return pi
	}
	tb := src(top.Body)
	if m := regexp.MustCompile(`aliasMap\["([^"]+)"\]`).FindStringSubmatch(tb); m != nil {
		pi.VocabURI = m[1]
	}
	if m := regexp.MustCompile(`propName := "([^"]+)"`).FindStringSubmatch(tb); m != nil {
		pi.Name = m[1]
	} else {
		shapeErr("%s: no propName", pi.Struct)
	}
	pi.HasMap = strings.Contains(tb, `m[propName+"Map"]`)
	// a property with a <name>Map spelling offers the language-map accessors on its element (the property itself when
	// functional, its iterator otherwise) - whatever else its range holds; a property without one does not
	for _, meth := range []string{"HasLanguage", "GetLanguage", "SetLanguage"} {
		_, has := fm[pi.ElemStruct+"."+meth]
		if has != pi.HasMap {
			shapeErr("%s: <name>Map spelling %v but method %s.%s present %v", pi.Struct, pi.HasMap, pi.ElemStruct, meth, has)
		}
	}
	readDeserChain(pi, des, flags)
	// serialize chain
	serName := ".serialize"
	if pi.Functional {
		serName = ".Serialize"
	}
	readSerChain(pi, fm, serName)
	// clear
	clr := fm[pi.ElemStruct+".clear"]
	if pi.Functional {
		clr = fm[pi.ElemStruct+".Clear"]
	}
	if clr == nil {
		shapeErr("%s: no clear()", pi.Struct)
	} else {
		for _, s := range clr.Body.List {
			as, ok := s.(*ast.AssignStmt)
			if !ok {
				shapeErr("%s: clear() has a non-assignment", pi.Struct)
				continue
			}
			l := norm(src(as.Lhs[0]))
			r := norm(src(as.Rhs[0]))
			if !strings.HasPrefix(l, "this.") || (r != "nil" && r != "false") {
				shapeErr("%s: clear() statement %s = %s", pi.Struct, l, r)
			}
			pi.ClearFields = append(pi.ClearFields, strings.TrimPrefix(l, "this."))
		}
	}
	// setters: Set<Kind>(v) { this.clear(); this.<field> = v [; this.has = true] }
	pi.SettersOK = true
	clearCall := "this.clear()"
	if pi.Functional {
		clearCall = "this.Clear()"
	}
	for n, fd := range fm {
		if !strings.HasPrefix(n, pi.ElemStruct+".Set") || fd.Recv == nil {
			continue
		}
		if strings.HasSuffix(n, ".SetType") || strings.HasSuffix(n, ".SetLanguage") {
			continue
		}
		if len(fd.Body.List) == 0 || norm(src(fd.Body.List[0])) != clearCall {
			pi.SettersOK = false
			shapeErr("%s%s does not start with %s", pi.ElemStruct, n, clearCall)
		}
	}
	// Name()
	for _, d := range f.Decls {
		fd, ok := d.(*ast.FuncDecl)
		if !ok || fd.Recv == nil || fd.Name.Name != "Name" {
			continue
		}
		recv := strings.TrimPrefix(norm(src(fd.Recv.List[0].Type)), "*")
		if recv != pi.Struct {
			continue
		}
		b := norm(src(fd.Body))
		pi.AliasedName = strings.Contains(b, "this.alias")
		pi.MapName = strings.Contains(b, fmt.Sprintf("%q", pi.Name+"Map"))
		ok2 := false
		switch {
		case pi.MapName && !pi.Functional:
			ok2 = b == norm(fmt.Sprintf(`{ if this.Len() == 1 && this.At(0).IsRDFLangString() { return %q } else { return %q } }`, pi.Name+"Map", pi.Name))
		case pi.MapName && pi.Functional:
			ok2 = b == norm(fmt.Sprintf(`{ if this.IsRDFLangString() { return %q } else { return %q } }`, pi.Name+"Map", pi.Name))
		case pi.AliasedName:
			ok2 = b == norm(fmt.Sprintf(`{ if len(this.alias) > 0 { return this.alias + ":" + %q } else { return %q } }`, pi.Name, pi.Name))
		default:
			ok2 = b == norm(fmt.Sprintf(`{ return %q }`, pi.Name))
		}
		if !ok2 {
			shapeErr("%s.Name has unexpected shape: %s", pi.Struct, b)
		}
	}
	if !pi.Functional {
		readTemplate(pi, f)
	}
	return pi
}

func kindOfGoType(field, gt string) string {
	if strings.HasPrefix(gt, "vocab.") {
		return "T:" + strings.TrimPrefix(gt, "vocab.")
	}
	// value kinds: field name is <ns><Kind>Member e.g. xmlschemaStringMember, rdfLangStringMember
	n := strings.TrimSuffix(field, "Member")
	for _, p := range []string{"xmlschema", "rdf", "rfc"} {
		if strings.HasPrefix(n, p) {
			return "V:" + strings.ToLower(n[len(p):len(p)+1]) + n[len(p)+1:]
		}
	}
	return "V:" + n
}

// readDeserChain records the order in which the element deserialiser tries
// representations.
func readDeserChain(pi *PropInfo, des *ast.FuncDecl, flags map[string]bool) {
	byField := map[string]string{}
	for _, m := range pi.Members {
		byField[m.Field] = m.Kind
	}
	// every composite literal &Struct{...} in source order tells which member
	// a successful branch fills.
	var chain []string
	ast.Inspect(des.Body, func(x ast.Node) bool {
		cl, ok := x.(*ast.CompositeLit)
		if !ok {
			return true
		}
		if id, ok := cl.Type.(*ast.Ident); !ok || id.Name != pi.ElemStruct {
			return true
		}
		kind := ""
		for _, e := range cl.Elts {
			kv, ok := e.(*ast.KeyValueExpr)
			if !ok {
				continue
			}
			k := norm(src(kv.Key))
			switch {
			case k == "iri":
				kind = "IRI"
			case k == "unknown":
				kind = "UNK"
			case byField[k] != "":
				kind = byField[k]
			}
		}
		if kind != "" {
			chain = append(chain, kind)
		}
		return true
	})
	pi.DeserChain = chain
	b := norm(src(des.Body))
	// the IRI branch must be the generated one
	if !strings.Contains(b, norm(`if s, ok := i.(string); ok { u, err := url.Parse(s)`)) ||
		!strings.Contains(b, "if err == nil && len(u.Scheme) > 0 {") {
		if len(chain) > 0 && chain[0] == "IRI" {
			shapeErr("%s: IRI branch has unexpected shape", pi.ElemStruct)
		}
	}
	// type kinds must be tried inside the map test, each through the manager's deserialiser of that type
	for _, m := range pi.Members {
		if strings.HasPrefix(m.Kind, "T:") {
			// vocab.ActivityStreamsCollection -> mgr.DeserializeCollectionActivityStreams
			if !strings.Contains(b, fmt.Sprintf("%s: v,", m.Field)) {
				shapeErr("%s: member %s never filled", pi.ElemStruct, m.Field)
			}
		}
	}
	// record the deserialiser called for each filled member: "x, err := <call>; err == nil { this := &S{ field: v"
	re := regexp.MustCompile(`if v, err := ([\w\.\(\)]+)\((m|i)(, aliasMap)?\); err == nil \{ this := &` + pi.ElemStruct + `\{ ([^}]*)\}`)
	for _, mm := range re.FindAllStringSubmatch(b, -1) {
		call, lit := mm[1], mm[4]
		for _, m := range pi.Members {
			if strings.Contains(lit, m.Field+": v") {
				pendingDeser = append(pendingDeser, pendingDeserCheck{pi.ElemStruct, m, call})
			}
		}
	}
}

// the deserialiser a member must be filled by can only be named once every vocabulary prefix is known
type pendingDeserCheck struct {
	elem string
	m    Member
	call string
}

var pendingDeser []pendingDeserCheck

// checkPendingDeser runs after all types have been read: prefixes = Go prefixes of the vocabularies found.
func checkPendingDeser(prefixes []string) {
	for _, p := range pendingDeser {
		want := deserialiserFor(p.m, prefixes)
		if p.call != want {
			shapeErr("%s: member %s filled by %s (expected %s)", p.elem, p.m.Field, p.call, want)
		}
	}
}

func deserialiserFor(m Member, prefixes []string) string {
	if strings.HasPrefix(m.Kind, "T:") {
		// T:ActivityStreamsCollection ; the vocabulary prefix is the longest one found among the generated types
		t := strings.TrimPrefix(m.Kind, "T:")
		best := ""
		for _, v := range prefixes {
			if strings.HasPrefix(t, v) && len(v) > len(best) {
				best = v
			}
		}
		if best != "" {
			return "mgr.Deserialize" + strings.TrimPrefix(t, best) + best + "()"
		}
		return "?"
	}
	k := strings.TrimPrefix(m.Kind, "V:")
	pkg := strings.ToLower(k)
	if pkg == "string" {
		pkg = "string1"
	}
	return pkg + ".Deserialize" + strings.ToUpper(k[:1]) + k[1:]
}

func readSerChain(pi *PropInfo, fm map[string]*ast.FuncDecl, name string) {
	// find the method with receiver ElemStruct (funcs() may have been overwritten for non-functional)
	fd := fm[pi.ElemStruct+name]
	if fd == nil {
		shapeErr("%s: %s missing", pi.ElemStruct, name)
		return
	}
	b := norm(src(fd.Body))
	re := regexp.MustCompile(`this\.Is(\w+)\(\)`)
	for _, m := range re.FindAllStringSubmatch(b, -1) {
		pi.SerChain = append(pi.SerChain, m[1])
	}
	if !strings.HasSuffix(b, "return this.unknown, nil }") {
		shapeErr("%s%s does not end with the unknown value", pi.ElemStruct, name)
	}
}


// readTemplate abstracts the bodies of the container methods of a
// non-functional property so that all 44 can be compared with one template.
func readTemplate(pi *PropInfo, f *ast.File) {
	base := strings.TrimSuffix(pi.Struct, "Property") // ActivityStreamsName
	for _, d := range f.Decls {
		fd, ok := d.(*ast.FuncDecl)
		if !ok || fd.Recv == nil {
			continue
		}
		recv := strings.TrimPrefix(norm(src(fd.Recv.List[0].Type)), "*")
		n := fd.Name.Name
		key := ""
		switch recv {
		case pi.Struct:
			switch {
			case strings.HasPrefix(n, "Append") && n != "AppendType":
				key = "Append"
			case strings.HasPrefix(n, "Prepend") && n != "PrependType":
				key = "Prepend"
			case strings.HasPrefix(n, "Insert") && n != "InsertType":
				key = "Insert"
			case strings.HasPrefix(n, "Set") && n != "SetType":
				key = "Set"
			case n == "Remove" || n == "Swap" || n == "At" || n == "Begin" || n == "End" || n == "Len" || n == "Empty" || n == "Serialize":
				key = n
			}
		case pi.ElemStruct:
			if n == "Next" || n == "Prev" {
				key = "Iter" + n
			}
		}
		if key == "" {
			continue
		}
		b := norm(src(fd.Body))
		b = strings.ReplaceAll(b, base, "$P")
		// abstract the member assignment of the kind-specific methods
		if key == "Append" || key == "Prepend" || key == "Insert" || key == "Set" {
			// the member filled must be the one the method is named after
			if m := regexp.MustCompile(`(\w+Member|iri): +v,`).FindStringSubmatch(b); m != nil {
				suffix := strings.ToLower(strings.TrimPrefix(n, key))
				fld := strings.ToLower(strings.TrimSuffix(m[1], "Member"))
				if fld != suffix && !(suffix == "" && len(pi.Members) == 1) && !(suffix == "iri" && fld == "xmlschemaanyuri") {
					shapeErr("%s.%s fills %s", pi.Struct, n, m[1])
				}
			} else {
				shapeErr("%s.%s fills no member", pi.Struct, n)
			}
		}
		b = regexp.MustCompile(`(\w+Member|iri): +v,`).ReplaceAllString(b, "")
		b = regexp.MustCompile(`has\w+Member: +true,`).ReplaceAllString(b, "")
		b = norm(b)
		if key == "Append" || key == "Prepend" || key == "Insert" || key == "Set" {
			key = key + ":" + n
		}
		pi.Template[key] = b
	}
}
