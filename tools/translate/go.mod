module verif/translate

go 1.23
