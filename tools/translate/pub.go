package main

import (
	"crypto/sha256"
	"encoding/hex"
	"fmt"
	"go/ast"
	"go/token"
	"path/filepath"
	"regexp"
	"sort"
	"strings"
)

// PubInfo holds the literal data of package pub that the Coq model uses, and a
// fingerprint of every function the model mirrors.
type PubInfo struct {
	BaseMediaType  string
	LdType         string
	Semis          []string
	Profiles       []string
	SuccessCodes   []string            // http.StatusOK ...
	Consts         map[string]string   // string constants of util.go / transport.go
	Ifaces         map[string][]string // property_interfaces.go: interface -> methods
	FedCallbacks   []string            // types switched on by FederatingWrappedCallbacks.callbacks
	FedAppended    []string            // w.create ... in order
	SocCallbacks   []string
	SocAppended    []string
	Fingerprints   map[string]string // "file:func" -> sha256 of normalised source
	ActivityIface  []string          // methods of pub.Activity
}

func readPub(repo string) *PubInfo {
	pi := &PubInfo{Consts: map[string]string{}, Ifaces: map[string][]string{}, Fingerprints: map[string]string{}}
	pd := filepath.Join(repo, "pub")
	files, _ := filepath.Glob(filepath.Join(pd, "*.go"))
	sort.Strings(files)
	for _, fn := range files {
		if strings.HasSuffix(fn, "_test.go") {
			continue
		}
		f := parseFile(fn)
		base := filepath.Base(fn)
		for _, d := range f.Decls {
			switch x := d.(type) {
			case *ast.FuncDecl:
				name := x.Name.Name
				if x.Recv != nil {
					name = strings.TrimPrefix(norm(src(x.Recv.List[0].Type)), "*") + "." + name
				}
				h := sha256.Sum256([]byte(norm(src(x))))
				pi.Fingerprints[base+":"+name] = hex.EncodeToString(h[:8])
			case *ast.GenDecl:
				if x.Tok == token.CONST || x.Tok == token.VAR {
					for _, s := range x.Specs {
						vs := s.(*ast.ValueSpec)
						for i, n := range vs.Names {
							if i < len(vs.Values) {
								if bl, ok := vs.Values[i].(*ast.BasicLit); ok && bl.Kind == token.STRING {
									pi.Consts[n.Name] = unquote(bl)
								}
							}
						}
					}
				}
				if x.Tok == token.TYPE {
					for _, s := range x.Specs {
						ts := s.(*ast.TypeSpec)
						if it, ok := ts.Type.(*ast.InterfaceType); ok {
							var ms []string
							for _, m := range it.Methods.List {
								for _, n := range m.Names {
									ms = append(ms, n.Name)
								}
							}
							if base == "property_interfaces.go" {
								pi.Ifaces[ts.Name.Name] = ms
							}
							if base == "activity.go" && ts.Name.Name == "Activity" {
								pi.ActivityIface = ms
							}
						}
					}
				}
			}
		}
		fm := funcs(f)
		if base == "util.go" {
			if fd := fm["init"]; fd != nil {
				b := src(fd.Body)
				lits := regexp.MustCompile(`"((?:[^"\\]|\\.)*)"`).FindAllString(b, -1)
				// expected order: base media type, ld type, 4 semis, 2 profiles, "%s%s%s"
				if len(lits) == 9 {
					uq := func(s string) string { return unquote(&ast.BasicLit{Value: s}) }
					pi.BaseMediaType = uq(lits[0])
					pi.LdType = uq(lits[1])
					for _, l := range lits[2:6] {
						pi.Semis = append(pi.Semis, uq(l))
					}
					for _, l := range lits[6:8] {
						pi.Profiles = append(pi.Profiles, uq(l))
					}
				} else {
					shapeErr("pub/util.go init: %d string literals (expected 9)", len(lits))
				}
				want := `{ activityStreamsMediaTypes = []string{ $S, } jsonLdType := $S for _, semi := range []string{$S, $S, $S, $S} { for _, profile := range []string{ $S, $S, } { activityStreamsMediaTypes = append( activityStreamsMediaTypes, fmt.Sprintf("%s%s%s", jsonLdType, semi, profile)) } } }`
				got := norm(regexp.MustCompile(`"((?:[^"\\]|\\.)*)"`).ReplaceAllStringFunc(b, func(s string) string {
					if s == `"%s%s%s"` {
						return s
					}
					return "$S"
				}))
				if got != norm(want) {
					shapeErr("pub/util.go init has unexpected shape: %s", got)
				}
			}
			if fd := fm["headerIsActivityPubMediaType"]; fd != nil {
				if norm(src(fd.Body)) != `{ for _, mediaType := range activityStreamsMediaTypes { if strings.Contains(header, mediaType) { return true } } return false }` {
					shapeErr("headerIsActivityPubMediaType has unexpected shape")
				}
			}
			if fd := fm["isActivityPubPost"]; fd != nil {
				if norm(src(fd.Body)) != `{ return r.Method == "POST" && headerIsActivityPubMediaType(r.Header.Get(contentTypeHeader)) }` {
					shapeErr("isActivityPubPost has unexpected shape")
				}
			}
			if fd := fm["isActivityPubGet"]; fd != nil {
				if norm(src(fd.Body)) != `{ return r.Method == "GET" && headerIsActivityPubMediaType(r.Header.Get(acceptHeader)) }` {
					shapeErr("isActivityPubGet has unexpected shape")
				}
			}
			if fd := fm["IsPublic"]; fd != nil {
				if norm(src(fd.Body)) != `{ return s == PublicActivityPubIRI || s == publicJsonLD || s == publicJsonLDAS }` {
					shapeErr("IsPublic has unexpected shape")
				}
			}
		}
		if base == "transport.go" {
			if fd := fm["isSuccess"]; fd != nil {
				for _, m := range regexp.MustCompile(`code == (http\.\w+)`).FindAllStringSubmatch(src(fd.Body), -1) {
					pi.SuccessCodes = append(pi.SuccessCodes, m[1])
				}
				if norm(src(fd.Body)) != `{ return code == http.StatusOK || code == http.StatusCreated || code == http.StatusAccepted }` {
					shapeErr("isSuccess has unexpected shape")
				}
			}
		}
		if base == "federating_wrapped_callbacks.go" {
			pi.FedCallbacks, pi.FedAppended = readCallbacks(fm["FederatingWrappedCallbacks.callbacks"], "FederatingWrappedCallbacks.callbacks")
		}
		if base == "social_wrapped_callbacks.go" {
			pi.SocCallbacks, pi.SocAppended = readCallbacks(fm["SocialWrappedCallbacks.callbacks"], "SocialWrappedCallbacks.callbacks")
		}
	}
	return pi
}

// readCallbacks reads the type switch (which application callback types
// disable a default) and the append order of the defaults.
func readCallbacks(fd *ast.FuncDecl, what string) (cases, appended []string) {
	if fd == nil {
		shapeErr("%s missing", what)
		return
	}
	b := norm(src(fd.Body))
	cre := regexp.MustCompile(`case func\(context\.Context, vocab\.ActivityStreams(\w+)\) error: enable(\w+) = false`)
	for _, m := range cre.FindAllStringSubmatch(b, -1) {
		if m[1] != m[2] {
			shapeErr("%s: case %s disables %s", what, m[1], m[2])
		}
		cases = append(cases, m[1])
	}
	are := regexp.MustCompile(`if enable(\w+) \{ fns = append\(fns, w\.(\w+)\) \}`)
	for _, m := range are.FindAllStringSubmatch(b, -1) {
		fn := m[2]
		want := strings.ToLower(m[1][:1]) + m[1][1:]
		if m[1] == "Delete" {
			want = "deleteFn"
		}
		if fn != want {
			shapeErr("%s: enable%s appends w.%s", what, m[1], fn)
		}
		appended = append(appended, m[1])
	}
	if strings.Count(b, "enable") != 3*len(cases) || len(cases) != len(appended) {
		shapeErr("%s: %d cases, %d appended, %d mentions of enable", what, len(cases), len(appended), strings.Count(b, "enable"))
	}
	return
}

func coqPub(t *Tables) string {
	p := t.Pub
	var b strings.Builder
	b.WriteString("(* GENERATED by tools/translate from /repo/pub on every run. Do not edit. *)\n")
	b.WriteString("From Coq Require Import String List.\nImport ListNotations.\nOpen Scope string_scope.\n\n")
	fmt.Fprintf(&b, "Definition base_media_type : string := %s.\n", coqStr(p.BaseMediaType))
	fmt.Fprintf(&b, "Definition ld_type : string := %s.\n", coqStr(p.LdType))
	fmt.Fprintf(&b, "Definition semis : list string := %s.\n", coqStrList(p.Semis))
	fmt.Fprintf(&b, "Definition profiles : list string := %s.\n", coqStrList(p.Profiles))
	fmt.Fprintf(&b, "Definition success_codes : list string := %s.\n", coqStrList(p.SuccessCodes))
	keys := []string{}
	for k := range p.Consts {
		keys = append(keys, k)
	}
	sort.Strings(keys)
	b.WriteString("Definition pub_consts : list (string * string) := [\n")
	for i, k := range keys {
		sep := ";"
		if i == len(keys)-1 {
			sep = ""
		}
		fmt.Fprintf(&b, "  (%s, %s)%s\n", coqStr(k), coqStr(p.Consts[k]), sep)
	}
	b.WriteString("].\n")
	fmt.Fprintf(&b, "Definition fed_callback_cases : list string := %s.\n", coqStrList(p.FedCallbacks))
	fmt.Fprintf(&b, "Definition fed_callback_appended : list string := %s.\n", coqStrList(p.FedAppended))
	fmt.Fprintf(&b, "Definition soc_callback_cases : list string := %s.\n", coqStrList(p.SocCallbacks))
	fmt.Fprintf(&b, "Definition soc_callback_appended : list string := %s.\n", coqStrList(p.SocAppended))
	ik := []string{}
	for k := range p.Ifaces {
		ik = append(ik, k)
	}
	sort.Strings(ik)
	b.WriteString("Definition pub_ifaces : list (string * list string) := [\n")
	for i, k := range ik {
		sep := ";"
		if i == len(ik)-1 {
			sep = ""
		}
		fmt.Fprintf(&b, "  (%s, %s)%s\n", coqStr(k), coqStrList(p.Ifaces[k]), sep)
	}
	b.WriteString("].\n")
	fmt.Fprintf(&b, "Definition activity_iface : list string := %s.\n", coqStrList(p.ActivityIface))
	return b.String()
}
