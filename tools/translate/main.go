// translate reads /repo (or $VERIF_REPO) with go/parser only - it never imports
// the repository's packages - and writes the literal tables the Coq
// development is checked against (coq/Gen/*.v), a JSON copy of the same tables
// for the harness, and the generated call tables the harness needs to reach
// every package-level function of streams.
package main

import (
	"bytes"
	"encoding/json"
	"flag"
	"fmt"
	"go/ast"
	"go/parser"
	"go/printer"
	"go/token"
	"os"
	"path/filepath"
	"regexp"
	"sort"
	"strings"
)

var fset = token.NewFileSet()

// shapeErrs collects every place where the generated code does not have the
// shape the tables assume. The Coq side has the obligation shape_errors = [].
var shapeErrs []string

func shapeErr(format string, a ...interface{}) {
	shapeErrs = append(shapeErrs, fmt.Sprintf(format, a...))
}

func must(err error) {
	if err != nil {
		fmt.Fprintln(os.Stderr, "translate:", err)
		os.Exit(2)
	}
}

func parseFile(path string) *ast.File {
	f, err := parser.ParseFile(fset, path, nil, 0)
	must(err)
	return f
}

func src(n ast.Node) string {
	var b bytes.Buffer
	must(printer.Fprint(&b, fset, n))
	return b.String()
}

// normalise whitespace so that formatting does not matter
var wsRe = regexp.MustCompile(`\s+`)

func norm(s string) string { return strings.TrimSpace(wsRe.ReplaceAllString(s, " ")) }

func funcs(f *ast.File) map[string]*ast.FuncDecl {
	m := map[string]*ast.FuncDecl{}
	for _, d := range f.Decls {
		if fd, ok := d.(*ast.FuncDecl); ok {
			name := fd.Name.Name
			if fd.Recv != nil {
				recv := strings.TrimPrefix(norm(src(fd.Recv.List[0].Type)), "*")
				m[recv+"."+name] = fd
				name = "." + name
			}
			m[name] = fd
		}
	}
	return m
}

func unquote(l *ast.BasicLit) string {
	s := l.Value
	if len(s) >= 2 && (s[0] == '"' || s[0] == '`') {
		var out string
		if err := json.Unmarshal([]byte(s), &out); err == nil {
			return out
		}
		return s[1 : len(s)-1]
	}
	return s
}

// stringListLiteral finds the first []string{...} composite literal in n.
func stringListLiteral(n ast.Node) (out []string, found bool) {
	ast.Inspect(n, func(x ast.Node) bool {
		if found {
			return false
		}
		if cl, ok := x.(*ast.CompositeLit); ok {
			if at, ok := cl.Type.(*ast.ArrayType); ok {
				if id, ok := at.Elt.(*ast.Ident); ok && id.Name == "string" && at.Len == nil {
					found = true
					for _, e := range cl.Elts {
						if bl, ok := e.(*ast.BasicLit); ok {
							out = append(out, unquote(bl))
						} else {
							shapeErr("non-literal element in []string literal at %s", fset.Position(e.Pos()))
						}
					}
					return false
				}
			}
		}
		return true
	})
	return
}

var listRe = regexp.MustCompile(`\[\]string\{[^}]*\}`)

// TypeInfo is everything read from one gen_type_*.go file.
type TypeInfo struct {
	Name       string   // "Like"
	Vocab      string   // directory name: "activitystreams"
	VocabPfx   string   // Go prefix: "ActivityStreams"
	VocabURI   string   // as used in aliasMap lookup
	Struct     string   // "ActivityStreamsLike"
	Pkg        string   // go package name "typelike"
	Dir        string   // type_like
	Typeless   bool     // no "type" test in Deserialize
	Fields     []Field  // property fields in struct order
	DeserOrder []string // property field names in the order Deserialize fills them
	KnownKeys  []string // k == "..." chain
	SerOrder   []string // keys written by Serialize, in order (property Name() receivers)
	Extends    []string
	ExtendedBy []string
	Disjoint   []string
	TypeName   string // literal returned by GetTypeName
}

type Field struct {
	GoName string // ActivityStreamsActor
	Iface  string // ActivityStreamsActorProperty
}

func expectBody(fd *ast.FuncDecl, want string, what string) {
	if fd == nil {
		shapeErr("%s: function missing", what)
		return
	}
	got := norm(listRe.ReplaceAllLiteralString(src(fd.Body), "[]string{$L}"))
	if got != norm(want) {
		shapeErr("%s: body differs from template: %s", what, got)
	}
}

const tplList = `{
	%s := []string{$L}
	for _, %s := range %s {
		if %s == other.GetTypeName() {
			return true
		}
	}
	return false
}`

const tplEmpty = `{ return false }`

func readListFunc(fd *ast.FuncDecl, listVar, elemVar, what string) []string {
	if fd == nil {
		shapeErr("%s: function missing", what)
		return nil
	}
	l, found := stringListLiteral(fd.Body)
	if !found {
		// "Shortcut implementation"
		expectBody(fd, tplEmpty, what)
		return nil
	}
	expectBody(fd, fmt.Sprintf(tplList, listVar, elemVar, listVar, elemVar), what)
	return l
}

func readType(repo, vocabDir, typeDir string) *TypeInfo {
	dir := filepath.Join(repo, "streams", "impl", vocabDir, typeDir)
	ms, _ := filepath.Glob(filepath.Join(dir, "gen_type_*.go"))
	if len(ms) != 1 {
		shapeErr("%s: expected exactly one gen_type_*.go, found %d", dir, len(ms))
		if len(ms) == 0 {
			return nil
		}
	}
	f := parseFile(ms[0])
	ti := &TypeInfo{Vocab: vocabDir, Dir: typeDir, Pkg: f.Name.Name}
	// struct
	for _, d := range f.Decls {
		gd, ok := d.(*ast.GenDecl)
		if !ok || gd.Tok != token.TYPE {
			continue
		}
		for _, s := range gd.Specs {
			ts := s.(*ast.TypeSpec)
			st, ok := ts.Type.(*ast.StructType)
			if !ok {
				continue
			}
			ti.Struct = ts.Name.Name
			for _, fl := range st.Fields.List {
				for _, nm := range fl.Names {
					if nm.Name == "alias" || nm.Name == "unknown" {
						continue
					}
					tn := ""
					if se, ok := fl.Type.(*ast.SelectorExpr); ok {
						tn = se.Sel.Name
					}
					ti.Fields = append(ti.Fields, Field{nm.Name, tn})
				}
			}
		}
	}
	fm := funcs(f)
	// GetTypeName
	if fd := fm[".GetTypeName"]; fd != nil {
		ast.Inspect(fd.Body, func(x ast.Node) bool {
			if r, ok := x.(*ast.ReturnStmt); ok && len(r.Results) == 1 {
				if bl, ok := r.Results[0].(*ast.BasicLit); ok {
					ti.TypeName = unquote(bl)
				}
			}
			return true
		})
		expectBody(fd, fmt.Sprintf(`{ return %q }`, ti.TypeName), ti.Struct+".GetTypeName")
	} else {
		shapeErr("%s: no GetTypeName", ti.Struct)
	}
	ti.Name = ti.TypeName
	// vocabulary prefix = struct name minus type name
	ti.VocabPfx = strings.TrimSuffix(ti.Struct, ti.Name)
	// hierarchy lists
	ti.Extends = readListFunc(fm[ti.Struct+"Extends"], "extensions", "ext", ti.Struct+"Extends")
	ti.ExtendedBy = readListFunc(fm[ti.Name+"IsExtendedBy"], "extensions", "ext", ti.Name+"IsExtendedBy")
	ti.Disjoint = readListFunc(fm[ti.Name+"IsDisjointWith"], "disjointWith", "disjoint", ti.Name+"IsDisjointWith")
	expectBody(fm["IsOrExtends"+ti.Name], fmt.Sprintf(`{
	if other.GetTypeName() == %q {
		return true
	}
	return %sIsExtendedBy(other)
}`, ti.Name, ti.Name), "IsOrExtends"+ti.Name)
	expectBody(fm[".IsExtending"], fmt.Sprintf(`{ return %sExtends(other) }`, ti.Struct), ti.Struct+".IsExtending")
	readDeserialize(ti, fm["Deserialize"+ti.Name])
	readSerialize(ti, fm[".Serialize"])
	return ti
}

var deserCallRe = regexp.MustCompile(`^mgr\.Deserialize(\w+)\(\)\(m, aliasMap\)$`)

func readDeserialize(ti *TypeInfo, fd *ast.FuncDecl) {
	if fd == nil {
		shapeErr("Deserialize%s missing", ti.Name)
		return
	}
	body := src(fd.Body)
	// vocabulary URI
	if m := regexp.MustCompile(`aliasMap\["([^"]+)"\]`).FindStringSubmatch(body); m != nil {
		ti.VocabURI = m[1]
	} else {
		shapeErr("Deserialize%s: no aliasMap lookup", ti.Name)
	}
	ti.Typeless = !strings.Contains(body, `m["type"]`)
	if !ti.Typeless {
		// the type test must be the generated one, on this type's name
		n := strings.Count(body, fmt.Sprintf("%q", ti.Name))
		if n != 4 { // != name, %q name, == name, %q name
			shapeErr("Deserialize%s: type test mentions the type name %d times (expected 4)", ti.Name, n)
		}
		if !strings.Contains(norm(body), norm(fmt.Sprintf(`typeName := strings.TrimPrefix(typeString, aliasPrefix)
		if typeName != %q {`, ti.Name))) {
			shapeErr("Deserialize%s: scalar type test has unexpected shape", ti.Name)
		}
		if !strings.Contains(norm(body), norm(fmt.Sprintf(`if typeString, ok := elemVal.(string); ok && strings.TrimPrefix(typeString, aliasPrefix) == %q {`, ti.Name))) {
			shapeErr("Deserialize%s: array type test has unexpected shape", ti.Name)
		}
	}
	// property deserialisation statements, in order
	for _, st := range fd.Body.List {
		is, ok := st.(*ast.IfStmt)
		if !ok || is.Init == nil {
			continue
		}
		as, ok := is.Init.(*ast.AssignStmt)
		if !ok || len(as.Rhs) != 1 {
			continue
		}
		call := norm(src(as.Rhs[0]))
		m := deserCallRe.FindStringSubmatch(call)
		if m == nil {
			continue
		}
		// else-if branch assigns this.<Field> = p
		field := ""
		if ei, ok := is.Else.(*ast.IfStmt); ok && len(ei.Body.List) == 1 {
			if a2, ok := ei.Body.List[0].(*ast.AssignStmt); ok {
				if se, ok := a2.Lhs[0].(*ast.SelectorExpr); ok {
					field = se.Sel.Name
				}
			}
			want := fmt.Sprintf(`if p, err := %s; err != nil { return nil, err } else if p != nil { this.%s = p }`, call, field)
			if norm(src(is)) != norm(want) {
				shapeErr("Deserialize%s: property statement has unexpected shape: %s", ti.Name, norm(src(is)))
			}
		} else {
			shapeErr("Deserialize%s: property statement without assignment: %s", ti.Name, call)
		}
		// the manager function name must be Deserialize<Prop>Property<Vocab>
		// and match the field: field = <Vocab><Prop>
		mf := m[1]
		idx := strings.LastIndex(mf, "Property")
		if idx < 0 {
			shapeErr("Deserialize%s: odd manager call %s", ti.Name, mf)
		} else {
			prop, voc := mf[:idx], mf[idx+len("Property"):]
			if voc+prop != field {
				shapeErr("Deserialize%s: field %s filled by %s", ti.Name, field, mf)
			}
		}
		ti.DeserOrder = append(ti.DeserOrder, field)
	}
	// unknown chain
	ast.Inspect(fd.Body, func(x ast.Node) bool {
		rs, ok := x.(*ast.RangeStmt)
		if !ok || norm(src(rs.X)) != "m" {
			return true
		}
		// body: optional if-chain, then this.unknown[k] = v
		stmts := rs.Body.List
		if len(stmts) == 0 {
			shapeErr("Deserialize%s: empty unknown loop", ti.Name)
			return false
		}
		last := norm(src(stmts[len(stmts)-1]))
		if last != "this.unknown[k] = v" {
			shapeErr("Deserialize%s: unknown loop ends with %s", ti.Name, last)
		}
		if len(stmts) > 2 {
			shapeErr("Deserialize%s: unknown loop has %d statements", ti.Name, len(stmts))
		}
		if len(stmts) == 2 {
			var cur ast.Stmt = stmts[0]
			for cur != nil {
				is, ok := cur.(*ast.IfStmt)
				if !ok {
					shapeErr("Deserialize%s: unknown chain has a non-if element", ti.Name)
					break
				}
				c := norm(src(is.Cond))
				m := regexp.MustCompile(`^k == "([^"]*)"$`).FindStringSubmatch(c)
				if m == nil || norm(src(is.Body)) != "{ continue }" {
					shapeErr("Deserialize%s: unknown chain element %s %s", ti.Name, c, norm(src(is.Body)))
				} else {
					ti.KnownKeys = append(ti.KnownKeys, m[1])
				}
				cur = is.Else
			}
		}
		return false
	})
}

// readSerialize extracts, in order, the fields whose Name() keys the output.
func readSerialize(ti *TypeInfo, fd *ast.FuncDecl) {
	if fd == nil {
		shapeErr("%s.Serialize missing", ti.Struct)
		return
	}
	re := regexp.MustCompile(`m\[this\.(\w+)\.Name\(\)\] = `)
	for _, m := range re.FindAllStringSubmatch(src(fd.Body), -1) {
		ti.SerOrder = append(ti.SerOrder, m[1])
	}
}

// ---------------------------------------------------------------------------

func coqStr(s string) string { return `"` + strings.ReplaceAll(s, `"`, `""`) + `"` }

func coqStrList(l []string) string {
	q := make([]string, len(l))
	for i, s := range l {
		q[i] = coqStr(s)
	}
	return "[" + strings.Join(q, "; ") + "]"
}

func writeIfChanged(path string, content []byte) {
	old, err := os.ReadFile(path)
	if err == nil && bytes.Equal(old, content) {
		return
	}
	must(os.MkdirAll(filepath.Dir(path), 0o755))
	must(os.WriteFile(path, content, 0o644))
}

type Tables struct {
	Types      []*TypeInfo
	Props      []*PropInfo
	Resolvers  *ResolverInfo
	Pub        *PubInfo
	ShapeErrs  []string
	PkgWrapped map[string]string // package-level function -> callee
}

func main() {
	repo := flag.String("repo", envOr("VERIF_REPO", "/repo"), "repository root")
	out := flag.String("out", "/verif", "verif root")
	astcmp := flag.String("astcmp", "", "generatedDir,shippedDir: compare file sets and syntax trees, then exit")
	flag.Parse()
	if *astcmp != "" {
		parts := strings.SplitN(*astcmp, ",", 2)
		astCompare(parts[0], parts[1])
		return
	}
	t := &Tables{PkgWrapped: map[string]string{}}
	implDir := filepath.Join(*repo, "streams", "impl")
	vocabs, err := os.ReadDir(implDir)
	must(err)
	for _, v := range vocabs {
		if !v.IsDir() {
			continue
		}
		ents, _ := os.ReadDir(filepath.Join(implDir, v.Name()))
		for _, e := range ents {
			if !e.IsDir() {
				continue
			}
			if strings.HasPrefix(e.Name(), "type_") {
				if ti := readType(*repo, v.Name(), e.Name()); ti != nil {
					t.Types = append(t.Types, ti)
				}
			} else if strings.HasPrefix(e.Name(), "property_") {
				if pi := readProp(*repo, v.Name(), e.Name()); pi != nil {
					t.Props = append(t.Props, pi)
				}
			}
		}
	}
	{
		seen := map[string]bool{}
		var prefixes []string
		for _, ti := range t.Types {
			if ti.VocabPfx != "" && !seen[ti.VocabPfx] {
				seen[ti.VocabPfx] = true
				prefixes = append(prefixes, ti.VocabPfx)
			}
		}
		sort.Strings(prefixes)
		checkPendingDeser(prefixes)
	}
	sort.Slice(t.Types, func(i, j int) bool {
		if t.Types[i].Name != t.Types[j].Name {
			return t.Types[i].Name < t.Types[j].Name
		}
		return t.Types[i].Vocab < t.Types[j].Vocab
	})
	sort.Slice(t.Props, func(i, j int) bool {
		if t.Props[i].Name != t.Props[j].Name {
			return t.Props[i].Name < t.Props[j].Name
		}
		return t.Props[i].Vocab < t.Props[j].Vocab
	})
	readPkgWrappers(*repo, t)
	t.Resolvers = readResolvers(*repo, t)
	t.Pub = readPub(*repo)
	t.ShapeErrs = shapeErrs
	if t.ShapeErrs == nil {
		t.ShapeErrs = []string{}
	}
	// outputs
	js, _ := json.MarshalIndent(t, "", " ")
	writeIfChanged(filepath.Join(*out, "run", "tables.json"), js)
	writeIfChanged(filepath.Join(*out, "coq", "Gen", "TablesShipped.v"), []byte(coqTables(t)))
	writeIfChanged(filepath.Join(*out, "coq", "Gen", "PubShipped.v"), []byte(coqPub(t)))
	writeIfChanged(filepath.Join(*out, "tools", "harness", "gen_calls.go"), []byte(goCalls(t)))
	fmt.Printf("translate: %d types, %d properties, %d shape errors\n", len(t.Types), len(t.Props), len(t.ShapeErrs))
}

func envOr(k, d string) string {
	if v := os.Getenv(k); v != "" {
		return v
	}
	return d
}

// readPkgWrappers checks that every package-level hierarchy function of
// streams is the one-line wrapper around the type package's function.
func readPkgWrappers(repo string, t *Tables) {
	byPkg := map[string]*TypeInfo{}
	for _, ti := range t.Types {
		byPkg[ti.Pkg] = ti
	}
	files, _ := filepath.Glob(filepath.Join(repo, "streams", "gen_pkg_*.go"))
	seen := map[string]bool{}
	for _, fn := range files {
		base := filepath.Base(fn)
		kind := ""
		for _, k := range []string{"_extends.go", "_extendedby.go", "_isorextends.go", "_disjoint.go"} {
			if strings.HasSuffix(base, k) {
				kind = k
			}
		}
		if kind == "" {
			continue
		}
		f := parseFile(fn)
		for name, fd := range funcs(f) {
			body := norm(src(fd.Body))
			m := regexp.MustCompile(`^\{ return (\w+)\.(\w+)\(other\) \}$`).FindStringSubmatch(body)
			if m == nil {
				shapeErr("streams.%s is not a one-line wrapper: %s", name, body)
				continue
			}
			ti := byPkg[m[1]]
			if ti == nil {
				shapeErr("streams.%s calls unknown package %s", name, m[1])
				continue
			}
			var wantName, wantCallee string
			switch kind {
			case "_extends.go":
				wantName, wantCallee = ti.VocabPfx+ti.Struct+"Extends", ti.Struct+"Extends"
			case "_extendedby.go":
				wantName, wantCallee = ti.Struct+"IsExtendedBy", ti.Name+"IsExtendedBy"
			case "_isorextends.go":
				wantName, wantCallee = "IsOrExtends"+ti.Struct, "IsOrExtends"+ti.Name
			case "_disjoint.go":
				wantName, wantCallee = ti.Struct+"IsDisjointWith", ti.Name+"IsDisjointWith"
			}
			if name != wantName || m[2] != wantCallee {
				shapeErr("streams.%s wraps %s.%s (expected %s -> %s)", name, m[1], m[2], wantName, wantCallee)
			}
			seen[wantName] = true
			t.PkgWrapped[name] = m[1] + "." + m[2]
		}
	}
	for _, ti := range t.Types {
		for _, n := range []string{ti.VocabPfx + ti.Struct + "Extends", ti.Struct + "IsExtendedBy", "IsOrExtends" + ti.Struct, ti.Struct + "IsDisjointWith"} {
			if !seen[n] {
				shapeErr("streams.%s missing", n)
			}
		}
	}
}
