package main

import (
	"fmt"
	"go/ast"
	"path/filepath"
	"regexp"
	"strings"
)

type Branch struct {
	GuardVocab string // vocabulary URI (type resolvers) or alias variable prefix (JSON resolver)
	GuardName  string // type name compared
	Deser      string // manager deserialiser called (JSON resolver only)
	CbType     string // vocab interface asserted on the callback
	ValType    string // vocab interface asserted on the value (type resolvers)
}

type ResolverInfo struct {
	JSONCases  []string // constructor switch cases (vocab interface names)
	TypeCases  []string
	PredCases  []string // predicate signatures accepted by NewTypePredicatedResolver
	JSON       []Branch
	Type       []Branch
	Pred       []Branch
	AliasURIs  map[string][]string // alias variable -> [https uri, http uri] looked up
	UnmatchedErrs []string          // errors IsUnmatchedErr recognises
}

func caseTypes(fd *ast.FuncDecl, suffix string, what string) []string {
	var out []string
	if fd == nil {
		shapeErr("%s missing", what)
		return nil
	}
	ast.Inspect(fd.Body, func(x ast.Node) bool {
		ts, ok := x.(*ast.TypeSwitchStmt)
		if !ok {
			return true
		}
		for _, c := range ts.Body.List {
			cc := c.(*ast.CaseClause)
			if cc.List == nil { // default
				b := norm(src(&ast.BlockStmt{List: cc.Body}))
				if !strings.Contains(b, "return nil, errors.New(") {
					shapeErr("%s: default case does not fail: %s", what, b)
				}
				continue
			}
			if len(cc.Body) != 0 {
				shapeErr("%s: case with a body", what)
			}
			for _, e := range cc.List {
				s := norm(src(e))
				m := regexp.MustCompile(`^func\(context\.Context, vocab\.(\w+)\) ` + suffix + `$`).FindStringSubmatch(s)
				if m == nil {
					shapeErr("%s: odd case %s", what, s)
					continue
				}
				out = append(out, m[1])
			}
		}
		return false
	})
	return out
}

func readResolvers(repo string, t *Tables) *ResolverInfo {
	ri := &ResolverInfo{AliasURIs: map[string][]string{}}
	sd := filepath.Join(repo, "streams")
	// ---- JSON resolver
	jf := funcs(parseFile(filepath.Join(sd, "gen_json_resolver.go")))
	ri.JSONCases = caseTypes(jf["NewJSONResolver"], "error", "NewJSONResolver")
	if fd := jf["JSONResolver.Resolve"]; fd != nil {
		b := norm(src(fd.Body))
		// alias variables
		re := regexp.MustCompile(`(\w+)Alias, ok := aliasMap\["([^"]+)"\] if !ok \{ (\w+)Alias = aliasMap\["([^"]+)"\] \} if len\((\w+)Alias\) > 0 \{ (\w+)Alias \+= ":" \}`)
		for _, m := range re.FindAllStringSubmatch(b, -1) {
			if m[1] != m[3] || m[1] != m[5] || m[1] != m[6] {
				shapeErr("JSONResolver.Resolve: alias block mixes variables %v", m[1:])
			}
			ri.AliasURIs[m[1]] = []string{m[2], m[4]}
		}
		bre := regexp.MustCompile(`if typeString == (\w+)Alias\+"(\w+)" \{ v, err := mgr\.(\w+)\(\)\(m, aliasMap\) if err != nil \{ return err \} for _, i := range this\.callbacks \{ if fn, ok := i\.\(func\(context\.Context, vocab\.(\w+)\) error\); ok \{ return fn\(ctx, v\) \} \} return ErrNoCallbackMatch \}`)
		ms := bre.FindAllStringSubmatch(b, -1)
		for _, m := range ms {
			ri.JSON = append(ri.JSON, Branch{GuardVocab: m[1], GuardName: m[2], Deser: m[3], CbType: m[4]})
		}
		// everything between the alias blocks and the end of handleFn must be branches: count "typeString ==" occurrences
		if n := strings.Count(b, "typeString =="); n != len(ms) {
			shapeErr("JSONResolver.Resolve: %d comparisons but %d well-formed branches", n, len(ms))
		}
		if !strings.Contains(b, "} else { return ErrUnhandledType } }") {
			shapeErr("JSONResolver.Resolve: handleFn does not end with ErrUnhandledType")
		}
		tail := `if typeStr, ok := typeValue.(string); ok { return handleFn(typeStr) } else if typeIArr, ok := typeValue.([]interface{}); ok { for _, typeI := range typeIArr { if typeStr, ok := typeI.(string); ok { if err := handleFn(typeStr); err == nil { return nil } else if err == ErrUnhandledType { continue } else { return err } } } return ErrUnhandledType } else { return ErrUnhandledType } }`
		if !strings.HasSuffix(b, tail) {
			shapeErr("JSONResolver.Resolve: tail has unexpected shape")
		}
		head := `{ typeValue, ok := m["type"] if !ok { return fmt.Errorf("cannot determine ActivityStreams type: 'type' property is missing") } rawContext, ok := m["@context"] if !ok { return fmt.Errorf("cannot determine ActivityStreams type: '@context' is missing") } aliasMap := toAliasMap(rawContext)`
		if !strings.HasPrefix(b, head) {
			shapeErr("JSONResolver.Resolve: head has unexpected shape")
		}
	} else {
		shapeErr("JSONResolver.Resolve missing")
	}
	// ---- Type resolver
	tf := funcs(parseFile(filepath.Join(sd, "gen_type_resolver.go")))
	ri.TypeCases = caseTypes(tf["NewTypeResolver"], "error", "NewTypeResolver")
	if fd := tf["TypeResolver.Resolve"]; fd != nil {
		b := norm(src(fd.Body))
		bre := regexp.MustCompile(`if o\.VocabularyURI\(\) == "([^"]+)" && o\.GetTypeName\(\) == "(\w+)" \{ if fn, ok := i\.\(func\(context\.Context, vocab\.(\w+)\) error\); ok \{ if v, ok := o\.\(vocab\.(\w+)\); ok \{ return fn\(ctx, v\) \} else \{ return errCannotTypeAssertType \} \} \}`)
		ms := bre.FindAllStringSubmatch(b, -1)
		for _, m := range ms {
			ri.Type = append(ri.Type, Branch{GuardVocab: m[1], GuardName: m[2], CbType: m[3], ValType: m[4]})
		}
		if n := strings.Count(b, "o.GetTypeName() =="); n != len(ms) {
			shapeErr("TypeResolver.Resolve: %d comparisons but %d well-formed branches", n, len(ms))
		}
		if !strings.HasPrefix(b, "{ for _, i := range this.callbacks { if o.VocabularyURI()") ||
			!strings.HasSuffix(b, "} else { return ErrUnhandledType } } return ErrNoCallbackMatch }") {
			shapeErr("TypeResolver.Resolve: frame has unexpected shape")
		}
	} else {
		shapeErr("TypeResolver.Resolve missing")
	}
	// ---- Predicated resolver
	pf := funcs(parseFile(filepath.Join(sd, "gen_type_predicated_resolver.go")))
	ri.PredCases = caseTypes(pf["NewTypePredicatedResolver"], `\(bool, error\)`, "NewTypePredicatedResolver")
	if fd := pf["TypePredicatedResolver.Apply"]; fd != nil {
		b := norm(src(fd.Body))
		bre := regexp.MustCompile(`if o\.VocabularyURI\(\) == "([^"]+)" && o\.GetTypeName\(\) == "(\w+)" \{ if fn, ok := this\.predicate\.\(func\(context\.Context, vocab\.(\w+)\) \(bool, error\)\); ok \{ if v, ok := o\.\(vocab\.(\w+)\); ok \{ predicatePasses, err = fn\(ctx, v\) \} else \{ return false, errCannotTypeAssertType \} \} else \{ return false, ErrPredicateUnmatched \} \}`)
		ms := bre.FindAllStringSubmatch(b, -1)
		for _, m := range ms {
			ri.Pred = append(ri.Pred, Branch{GuardVocab: m[1], GuardName: m[2], CbType: m[3], ValType: m[4]})
		}
		if n := strings.Count(b, "o.GetTypeName() =="); n != len(ms) {
			shapeErr("TypePredicatedResolver.Apply: %d comparisons but %d well-formed branches", n, len(ms))
		}
		if !strings.HasPrefix(b, "{ var predicatePasses bool var err error if o.VocabularyURI()") ||
			!strings.HasSuffix(b, "} else { return false, ErrUnhandledType } if err != nil { return predicatePasses, err } if predicatePasses { return true, this.delegate.Resolve(ctx, o) } else { return false, nil } }") {
			shapeErr("TypePredicatedResolver.Apply: frame has unexpected shape")
		}
	} else {
		shapeErr("TypePredicatedResolver.Apply missing")
	}
	// ---- utils
	uf := funcs(parseFile(filepath.Join(sd, "gen_resolver_utils.go")))
	if fd := uf["IsUnmatchedErr"]; fd != nil {
		b := norm(src(fd.Body))
		for _, m := range regexp.MustCompile(`err == (\w+)`).FindAllStringSubmatch(b, -1) {
			ri.UnmatchedErrs = append(ri.UnmatchedErrs, m[1])
		}
		if b != "{ return err == ErrPredicateUnmatched || err == ErrUnhandledType || err == ErrNoCallbackMatch }" {
			shapeErr("IsUnmatchedErr has unexpected shape: %s", b)
		}
	} else {
		shapeErr("IsUnmatchedErr missing")
	}
	if fd := uf["ToType"]; fd != nil {
		b := norm(src(fd.Body))
		// ToType: a JSONResolver built from one callback per type, each storing its argument
		n := strings.Count(b, "t = i return nil }")
		if n != len(t.Types) {
			shapeErr("ToType registers %d callbacks for %d types", n, len(t.Types))
		}
		for _, ti := range t.Types {
			if !strings.Contains(b, fmt.Sprintf("func(ctx context.Context, i vocab.%s) error { t = i return nil }", ti.Struct)) {
				shapeErr("ToType has no callback for %s", ti.Struct)
			}
		}
	} else {
		shapeErr("ToType missing")
	}
	return ri
}
