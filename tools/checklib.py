"""Shared machinery of ./check (see DESIGN.md section 2.2)."""
import argparse, glob, hashlib, json, os, re, shutil, subprocess, sys, time

ROOT = os.path.dirname(os.path.dirname(os.path.abspath(__file__)))   # the framework copy this file belongs to (a scratch clone runs on its own files)
REPO = os.environ.get("VERIF_REPO", "/repo")
GOENV = dict(os.environ, GOFLAGS="-mod=mod", GOPROXY="off", GOSUMDB="off", GOTOOLCHAIN="local",
             CGO_ENABLED=os.environ.get("CGO_ENABLED", "0"))
DEFAULT_SEED = 20260930


def sh(cmd, cwd=None, timeout=1800, env=None):
    t0 = time.time()
    try:
        p = subprocess.run(cmd, cwd=cwd, env=env or GOENV, stdout=subprocess.PIPE, stderr=subprocess.STDOUT,
                           timeout=timeout, shell=isinstance(cmd, str))
        return p.returncode, p.stdout.decode("utf-8", "replace"), time.time() - t0
    except subprocess.TimeoutExpired as e:
        out = (e.stdout or b"").decode("utf-8", "replace")
        return 124, out + "\n[timeout after %ss]" % timeout, time.time() - t0


class Ctx:
    def __init__(self, prop, tier, seed):
        self.prop, self.tier, self.seed = prop, tier, seed
        self.rundir = os.path.join(ROOT, "run", prop)
        os.makedirs(self.rundir, exist_ok=True)
        self.t0 = time.time()
        self.violations = []      # (replay_path, nofail:boolean, text)
        self.known_hits = []      # text lines
        self.coverage = {}
        self.assumptions = []
        self.log = []
        self.nreplay = 0
        self.known = load_known()
        self.sigs_seen = set()
        self.suppressed = 0

    def note(self, s):
        self.log.append(s)
        print("[%s] %s" % (self.prop, s), flush=True)

    def replay_file(self, obj):
        self.nreplay += 1
        p = os.path.join(self.rundir, "replay-%d.json" % self.nreplay)
        obj = dict(obj)
        obj.setdefault("property", self.prop)
        obj.setdefault("seed", self.seed)
        with open(p, "w") as f:
            json.dump(obj, f, indent=1, sort_keys=True)
        return p

    def violation(self, sig, text, replay_obj, nofail=False):
        """Report a violation unless its signature is a listed known finding."""
        for k in self.known:
            if k["kind"] == "finding" and k["property"] == self.prop and k["sig"] == sig:
                line = "KNOWN-FINDING: property=%s %s" % (self.prop, k["text"])
                if line not in self.known_hits:
                    self.known_hits.append(line)
                return False
        if sig in self.sigs_seen or len(self.violations) >= 10:
            self.suppressed += 1
            return True
        self.sigs_seen.add(sig)
        replay_obj = dict(replay_obj)
        replay_obj["signature"] = sig
        replay_obj["what"] = text
        p = self.replay_file(replay_obj)
        self.violations.append((p, nofail, text))
        return True


def load_known():
    out = []
    p = os.path.join(ROOT, "KNOWN_FINDINGS.txt")
    if not os.path.exists(p):
        return out
    for line in open(p):
        line = line.strip()
        if not line or line.startswith("#"):
            continue
        m = re.match(r"^(finding|fixed):\s+property=(C\d+)\s+sig=(\S+)\s+(.*)$", line)
        if m:
            out.append({"kind": m.group(1), "property": m.group(2), "sig": m.group(3), "text": m.group(4)})
    return out


# --------------------------------------------------------------------------- build steps

def build_tools(ctx):
    os.makedirs(os.path.join(ROOT, "tools", "bin"), exist_ok=True)
    rc, out, dt = sh(["go", "build", "-o", "../bin/translate", "."], cwd=os.path.join(ROOT, "tools", "translate"))
    if rc != 0:
        raise RuntimeError("translator build failed:\n" + out)


def run_translators(ctx):
    build_tools(ctx)
    env = dict(GOENV, VERIF_REPO=REPO, VERIF_OUT=ROOT)
    rc, out, dt = sh([os.path.join(ROOT, "tools", "bin", "translate"), "-repo", REPO, "-out", ROOT], env=env)
    ctx.note(out.strip() + " (%.1fs)" % dt)
    if rc != 0:
        # the translator could not even parse the tree
        return False, out
    rc2, out2, dt2 = sh(["python3", os.path.join(ROOT, "tools", "ontology", "onto.py")], env=env)
    ctx.note(out2.strip())
    return rc2 == 0, out + out2


def ensure_makefile():
    coq = os.path.join(ROOT, "coq")
    mk = os.path.join(coq, "Makefile")
    cp = os.path.join(coq, "_CoqProject")
    if not os.path.exists(mk) or os.path.getmtime(mk) < os.path.getmtime(cp):
        rc, out, _ = sh(["coq_makefile", "-f", "_CoqProject", "-o", "Makefile"], cwd=coq)
        if rc != 0:
            raise RuntimeError("coq_makefile failed: " + out)


def coq_make(ctx, targets, timeout=2400):
    """Full .vo build of the given targets (and what they depend on)."""
    ensure_makefile()
    coq = os.path.join(ROOT, "coq")
    cmd = ["make", "-j16"] + targets
    rc, out, dt = sh(cmd, cwd=coq, timeout=timeout)
    ctx.note("make %s -> rc=%d (%.1fs)" % (" ".join(targets), rc, dt))
    return rc == 0, out, "cd coq && " + " ".join(cmd)


def broken_theorem(out):
    """Name the lemma/theorem in which make failed, from Coq's error location."""
    m = re.search(r'File "\./([^"]+)", line (\d+)', out)
    if not m:
        return None, None, out[-2000:]
    path, line = m.group(1), int(m.group(2))
    name = None
    try:
        lines = open(os.path.join(ROOT, "coq", path)).read().split("\n")
        for i in range(min(line, len(lines)) - 1, -1, -1):
            mm = re.match(r"\s*(Lemma|Theorem|Example|Corollary|Definition|Fixpoint)\s+(\w+)", lines[i])
            if mm:
                name = mm.group(2)
                break
    except OSError:
        pass
    err = out[m.start():][:1500]
    return path, name, err


def assumptions_of(out):
    """Collect what Print Assumptions printed during this make."""
    closed = out.count("Closed under the global context")
    axioms = re.findall(r"^Axioms:\n((?:.+\n)+?)(?=\S|\Z)", out, re.M)
    return closed, axioms


def count_theorems(vfile):
    s = open(os.path.join(ROOT, "coq", vfile)).read()
    return len(re.findall(r"^\s*Theorem\s+\w+", s, re.M)), re.findall(r"^\s*Theorem\s+(\w+)", s, re.M)


def print_assumptions(ctx, vfile):
    """Print Assumptions output of a property file; cached against the .vo's mtime
    (the .vo is rebuilt by make whenever anything it depends on changed)."""
    coq = os.path.join(ROOT, "coq")
    vo = os.path.join(coq, vfile[:-2] + ".vo")
    cache = os.path.join(ROOT, "run", "pa-" + os.path.basename(vfile) + ".txt")
    if os.path.exists(cache) and os.path.exists(vo) and os.path.getmtime(cache) >= os.path.getmtime(vo):
        return 0, open(cache).read()
    rc, out, dt = sh(["coqc", "-Q", ".", "Verif", "-w", "-notation-overridden,-deprecated-hint-without-locality,-deprecated", vfile], cwd=coq, timeout=1200)
    if rc == 0:
        open(cache, "w").write(out)
    return rc, out


def _unused_print_assumptions(ctx, vfile):
    coq = os.path.join(ROOT, "coq")
    rc, out, dt = sh(["coqc", "-Q", ".", "Verif", "-w", "-notation-overridden,-deprecated-hint-without-locality,-deprecated", vfile], cwd=coq, timeout=1200)
    return rc, out


def harness_build(ctx, race=False):
    hd = os.path.join(ROOT, "tools", "harness")
    gomod = open(os.path.join(hd, "go.mod")).read()
    want = "replace github.com/go-fed/activity => %s" % REPO
    if want not in gomod:
        gomod = re.sub(r"replace github.com/go-fed/activity => \S+", want, gomod)
        open(os.path.join(hd, "go.mod"), "w").write(gomod)
    shutil.copyfile(os.path.join(REPO, "go.sum"), os.path.join(hd, "go.sum"))
    out_bin = "../bin/harness-race" if race else "../bin/harness"
    cmd = ["go", "build", "-tags", "verif", "-o", out_bin] + (["-race"] if race else []) + ["."]
    env = dict(GOENV)
    if race:
        env["CGO_ENABLED"] = "1"
    rc, out, dt = sh(cmd, cwd=hd, env=env, timeout=1800)
    ctx.note("harness build rc=%d (%.1fs)" % (rc, dt))
    return rc == 0, out


def harness_run(ctx, args, race=False, timeout=3000):
    b = os.path.join(ROOT, "tools", "bin", "harness-race" if race else "harness")
    cmd = [b] + args + ["-out", ctx.rundir, "-seed", str(ctx.seed), "-tier", ctx.tier]
    rc, out, dt = sh(cmd, timeout=timeout)
    ctx.note("harness %s rc=%d (%.1fs)" % (" ".join(args), rc, dt))
    summ = None
    sp = os.path.join(ctx.rundir, "summary.json")
    if os.path.exists(sp):
        summ = json.load(open(sp))
    return rc, out, summ


def coqc_run(ctx, vfile, timeout=2400):
    """Compile a file of the run directory against the built development."""
    cmd = ["coqc", "-Q", os.path.join(ROOT, "coq"), "Verif", "-Q", ctx.rundir, "Run", "-w", "-notation-overridden,-deprecated-hint-without-locality,-deprecated", vfile]
    rc, out, dt = sh(cmd, cwd=ctx.rundir, timeout=timeout)
    ctx.note("coqc %s rc=%d (%.1fs)" % (os.path.basename(vfile), rc, dt))
    return rc, out


def parse_defs(out):
    """Coq prints `name = value : type` for Print; return {name: value-string}."""
    res = {}
    for m in re.finditer(r"^(\w+) =\s*\n?(.*?)\n\s*: ", out, re.M | re.S):
        res[m.group(1)] = m.group(2).strip()
    return res


# --------------------------------------------------------------------------- evidence

def write_evidence(ctx, level, extra_cov=None):
    cov = dict(ctx.coverage)
    if extra_cov:
        cov.update(extra_cov)
    ev = {
        "property_id": ctx.prop, "tier": ctx.tier, "seed": ctx.seed, "level": level,
        "coverage": cov, "assumptions": ctx.assumptions, "wall_s": round(time.time() - ctx.t0, 2),
        "violations": len(ctx.violations), "further_violations_same_signature_or_over_cap": ctx.suppressed,
        "known_findings_hit": ctx.known_hits,
        "log": ctx.log[-60:],
    }
    os.makedirs(os.path.join(ROOT, "evidence"), exist_ok=True)
    with open(os.path.join(ROOT, "evidence", ctx.prop + ".json"), "w") as f:
        json.dump(ev, f, indent=1, sort_keys=True)


def finish(ctx, level):
    write_evidence(ctx, level)
    for line in ctx.known_hits:
        print(line)
    for p, nofail, text in ctx.violations:
        print("VIOLATION property=%s replay=%s%s" % (ctx.prop, p, " no-failing-input-found" if nofail else ""))
    sys.stdout.flush()
    return 1 if ctx.violations else 0


TRUSTED_COMMON = [
    "Coq 8.16.1 kernel and vm_compute (no native_compute)",
    "tools/translate (go/ast reader of /repo, with shape checks) and tools/ontology/onto.py (JSON-LD reader)",
    "tools/harness (Go; runs the real code; its generators bound the correspondence)",
]


def main(root):
    ap = argparse.ArgumentParser()
    ap.add_argument("prop")
    ap.add_argument("--tier", default=os.environ.get("VERIF_TIER", "quick"))
    ap.add_argument("--replay")
    a = ap.parse_args()
    seed = int(os.environ.get("VERIF_SEED", DEFAULT_SEED))
    tier = a.tier if a.tier in ("quick", "thorough") else "quick"
    ctx = Ctx(a.prop, tier, seed)
    import props
    fn = getattr(props, "check_" + a.prop, None)
    if fn is None:
        print("unknown property", a.prop)
        return 2
    if a.replay:
        ctx.replay_path = a.replay
        rfn = getattr(props, "replay_" + a.prop, None)
        if rfn is None:
            print("no replay for", a.prop)
            return 2
        return rfn(ctx)
    try:
        return fn(ctx)
    except Exception as e:  # a crash of the machinery is not a verdict about the code
        import traceback
        traceback.print_exc()
        print("[%s] internal error: %s" % (a.prop, e))
        return 3
