#!/usr/bin/env python3
"""Render seeded/MATRIX.md from the detected_by records that tools/seed_matrix.py wrote into seeded/*/meta.json."""
import json, os, glob
ROOT = os.path.dirname(os.path.dirname(os.path.abspath(__file__)))
rows = []
for d in sorted(glob.glob(os.path.join(ROOT, "seeded", "*-*"))):
    sid = os.path.basename(d)
    meta = json.load(open(os.path.join(d, "meta.json")))
    det = meta.get("detected_by") or {}
    if not isinstance(det, dict) or not det:
        res, rep = "not run", ""
    elif not det.get("applies", True):
        res, rep = "does not apply to this HEAD", ""
    elif det.get("detected"):
        res = "detected, failing input" if det.get("with_failing_input") else "detected, no-failing-input-found"
        rep = next((l for l in det.get("report", []) if not l.startswith("VIOLATION")), "")
    else:
        res, rep = "MISSED", ""
    summ = " ".join(meta.get("summary", "").split())
    rows.append((sid, summ[:150], res, " ".join(rep.split())[:170], det.get("repo_head", "")))
with open(os.path.join(ROOT, "seeded", "MATRIX.md"), "w") as f:
    f.write("# Seeded changes against the quick tier of their property's check\n\n")
    f.write("Written by tools/seed_table.py from seeded/*/meta.json (tools/seed_matrix.py applies each patch to /repo, runs `./check Cxx`, reverts).\n\n")
    f.write("| change | what was changed | result | first reported line | /repo HEAD |\n|---|---|---|---|---|\n")
    for r in rows:
        f.write("| %s | %s | %s | %s | %s |\n" % tuple(x.replace("|", "\\|") for x in r))
    n = len(rows); d = sum(1 for r in rows if r[2].startswith("detected")); c = sum(1 for r in rows if r[2] == "detected, failing input")
    f.write("\n%d changes, %d detected, %d of them with a concrete failing input.\n" % (n, d, c))
print(open(os.path.join(ROOT, "seeded", "MATRIX.md")).read()[-300:])
