#!/bin/sh
# usage: tools/mutant_run.sh <patch> <Cxx> [<Cyy> ...]   -- applies the patch to the repository ($VERIF_REPO, default /repo), runs
# the quick checks of this framework copy against it, reverts.  With VERIF_REPO set to a scratch worktree and this script
# called from a scratch clone of /verif, a matrix run leaves /repo and /verif alone.
patch="$1"; shift
REPO="${VERIF_REPO:-/repo}"
ROOT="$(cd "$(dirname "$0")/.." && pwd)"
cd "$REPO" || exit 2
if ! git apply --check "$patch" 2>/dev/null; then echo "PATCH-DOES-NOT-APPLY $patch"; exit 2; fi
git apply "$patch"
cd "$ROOT"
for c in "$@"; do
  out=$(./check "$c" --tier quick 2>&1); rc=$?
  echo "== $c rc=$rc $(echo "$out" | grep -c '^VIOLATION') violation line(s)"
  echo "$out" | grep '^VIOLATION\|^KNOWN' | head -3
  for f in $(echo "$out" | grep '^VIOLATION' | head -2 | sed 's/.*replay=\([^ ]*\).*/\1/'); do python3 -c "
import json,sys; r=json.load(open('$f')); print('   ', r.get('signature'), '|', str(r.get('what'))[:160])"; done
done
cd "$REPO" && git checkout -- . && git clean -fdq -- . >/dev/null 2>&1; VERIF_REPO="$REPO" VERIF_OUT="$ROOT" "$ROOT/tools/bin/translate" -repo "$REPO" -out "$ROOT" >/dev/null; VERIF_OUT="$ROOT" python3 "$ROOT/tools/ontology/onto.py" >/dev/null
git status --short | head -3
