#!/bin/sh
# usage: tools/mutant_run.sh <patch> <Cxx> [<Cyy> ...]   -- applies the patch to /repo, runs the quick checks, reverts.
patch="$1"; shift
cd /repo || exit 2
if ! git apply --check "$patch" 2>/dev/null; then echo "PATCH-DOES-NOT-APPLY $patch"; exit 2; fi
git apply "$patch"
cd /verif
for c in "$@"; do
  out=$(./check "$c" --tier quick 2>&1); rc=$?
  echo "== $c rc=$rc $(echo "$out" | grep -c '^VIOLATION') violation line(s)"
  echo "$out" | grep '^VIOLATION\|^KNOWN' | head -3
  for f in $(echo "$out" | grep '^VIOLATION' | head -2 | sed 's/.*replay=\([^ ]*\).*/\1/'); do python3 -c "
import json,sys; r=json.load(open('$f')); print('   ', r.get('signature'), '|', str(r.get('what'))[:160])"; done
done
cd /repo && git checkout -- . && git clean -fdq -- . >/dev/null 2>&1; /verif/tools/bin/translate >/dev/null; python3 /verif/tools/ontology/onto.py >/dev/null
git status --short | head -3
