#!/usr/bin/env python3
"""C15 runner: regenerate the shipped package (repeatedly, fresh processes), compare with /repo/streams; generate random
extension vocabularies, run astool, compile, read the result back with the translator and re-check the table theorems.
Scratch space: /var/tmp/verif-c15-<pid> (removed at the end).  Prints one JSON object."""
import json, os, shutil, subprocess, sys, hashlib, time

ROOT = os.path.dirname(os.path.dirname(os.path.dirname(os.path.abspath(__file__))))
REPO = os.environ.get("VERIF_REPO", "/repo")
ENV = dict(os.environ, GOFLAGS="-mod=mod", GOPROXY="off", GOSUMDB="off", GOTOOLCHAIN="local")
SPECS = ["activitystreams.jsonld", "security-v1.jsonld", "toot.jsonld", "forgefed.jsonld"]
TABLE_DEV = ["Base/ListX.v", "Vocab/Tables.v", "Vocab/Ontology.v", "Vocab/Spec.v", "Proofs/SpecProofs.v", "Streams/Hier.v", "Proofs/HierProofs.v", "Properties/C13.v",
             "Streams/Resolver.v", "Proofs/ResolverProofs.v", "Properties/C14.v", "Streams/TableSpec.v", "Streams/Literals.v", "Proofs/TableProofs.v", "Proofs/LiteralProofs.v",
             "Properties/C12.v", "Streams/Container.v", "Proofs/ContainerProofs.v", "Streams/ContainerTemplate.v", "Streams/Slot.v", "Proofs/SlotProofs.v", "Properties/C18.v"]


def sh(cmd, cwd=None, timeout=1800, env=None):
    p = subprocess.run(cmd, cwd=cwd, env=env or ENV, stdout=subprocess.PIPE, stderr=subprocess.STDOUT, timeout=timeout)
    return p.returncode, p.stdout.decode("utf-8", "replace")


def tree_hash(d):
    h = hashlib.sha256()
    n = 0
    for root, _, files in sorted(os.walk(d)):
        for f in sorted(files):
            p = os.path.join(root, f)
            h.update(os.path.relpath(p, d).encode())
            h.update(open(p, "rb").read())
            n += 1
    return h.hexdigest(), n


def disturbed_destination(astool, args, fresh_streams, work):
    """The same command on the same input gives the same bytes whatever an earlier run left in the destination: a copy of the
    freshly generated tree is disturbed (every file in turn: two bytes exchanged keeping the size, truncated, emptied, removed,
    dated in the future), astool runs into it again, every generated file must equal the fresh one.  Returns (ok, detail)."""
    os.makedirs(work)
    dst = os.path.join(work, "streams")
    shutil.copytree(fresh_streams, dst)
    k = 0
    kinds = {}
    for root, _, files in sorted(os.walk(dst)):
        for f in sorted(files):
            p = os.path.join(root, f)
            b = bytearray(open(p, "rb").read())
            k += 1
            how = ["swap", "swap", "truncate", "future", "remove", "swap", "empty"][k % 7]
            if how in ("swap", "future"):
                done = False
                for i in range(len(b) // 2, len(b) - 1):
                    if b[i] != b[i + 1] and chr(b[i]).isalpha() and chr(b[i + 1]).isalpha():
                        b[i], b[i + 1] = b[i + 1], b[i]
                        done = True
                        break
                if not done:
                    how = "truncate"
            if how in ("swap", "future"):
                open(p, "wb").write(bytes(b))
                if how == "future":
                    t = time.time() + 86400 * 365
                    os.utime(p, (t, t))
            elif how == "truncate":
                open(p, "wb").write(bytes(b[:len(b) // 2]))
            elif how == "empty":
                open(p, "wb").write(b"")
            else:
                os.remove(p)
            kinds[how] = kinds.get(how, 0) + 1
    rc, out = sh([astool] + args, cwd=work)
    if rc != 0:
        return None, {"astool": out[-500:]}
    differing = []
    for root, _, files in sorted(os.walk(fresh_streams)):
        for f in sorted(files):
            gp = os.path.join(root, f)
            rp = os.path.join(dst, os.path.relpath(gp, fresh_streams))
            if not os.path.exists(rp) or open(rp, "rb").read() != open(gp, "rb").read():
                differing.append(os.path.relpath(gp, fresh_streams))
    shutil.rmtree(work, ignore_errors=True)
    return (not differing), {"files_disturbed": kinds, "files_differing_afterwards": differing[:20], "count": len(differing)}


def main():
    tier = sys.argv[1]
    seed = int(sys.argv[2])
    keep = sys.argv[3]                       # directory (under /verif/run) where failing inputs are copied
    scratch = "/var/tmp/verif-c15-%d" % os.getpid()
    shutil.rmtree(scratch, ignore_errors=True)
    os.makedirs(scratch)
    res = {"violations": [], "runs": 0, "extensions": []}
    try:
        rc, out = sh(["go", "build", "-o", os.path.join(scratch, "astool"), "./astool"], cwd=REPO)
        if rc != 0:
            res["violations"].append({"sig": "C15:astool-build", "what": "astool does not build", "detail": out[-2000:], "nofail": True})
            return res
        astool = os.path.join(scratch, "astool")
        # ---- the shipped vocabularies, repeatedly
        n = 10 if tier == "quick" else 40
        from concurrent.futures import ThreadPoolExecutor
        def one(i):
            d = os.path.join(scratch, "ship%d" % i)
            os.makedirs(d)
            cmd = [astool] + sum((["-spec", os.path.join(REPO, "astool", s)] for s in SPECS), []) + ["-path", "github.com/go-fed/activity", "./streams"]
            rc, out = sh(cmd, cwd=d)
            if rc != 0 or not os.path.isdir(os.path.join(d, "streams")):
                return None, out
            h = tree_hash(os.path.join(d, "streams"))
            if i > 0:
                shutil.rmtree(os.path.join(d, "streams"))
            return h, out
        with ThreadPoolExecutor(max_workers=5) as ex:
            outs = list(ex.map(one, range(n)))
        for h, out in outs:
            if h is None:
                res["violations"].append({"sig": "C15:astool-run", "what": "astool fails on the shipped vocabularies", "detail": out[-2000:]})
                return res
        hashes = [h for h, _ in outs]
        res["runs"] += n
        res["shipped_runs"] = n
        res["files_generated"] = hashes[0][1]
        if len(set(hashes)) != 1:
            res["violations"].append({"sig": "C15:nondeterministic", "what": "two runs of astool on the shipped vocabularies differ", "detail": [h[0] for h in hashes]})
        # every generated file, byte for byte, against the shipped one of the same path (hand-written files of streams/ aside)
        gen0 = os.path.join(scratch, "ship0", "streams")
        differing = []
        for root, _, files in sorted(os.walk(gen0)):
            for f in sorted(files):
                gp = os.path.join(root, f)
                sp = os.path.join(REPO, "streams", os.path.relpath(gp, gen0))
                if not os.path.exists(sp) or open(sp, "rb").read() != open(gp, "rb").read():
                    differing.append(os.path.relpath(gp, gen0))
        res["shipped_tree_bytes_equal"] = not differing
        if differing and len(set(hashes)) == 1:
            res["violations"].append({"sig": "C15:shipped-bytes", "what": "files astool generates from the shipped vocabularies are not byte-identical to /repo/streams", "detail": differing[:20]})
        rc, out = sh([os.path.join(ROOT, "tools", "bin", "translate"), "-astcmp", os.path.join(scratch, "ship0", "streams") + "," + os.path.join(REPO, "streams")])
        try:
            cmp_ = json.loads(out.strip().splitlines()[-1])
        except Exception:
            cmp_ = {"error": out[-500:]}
        res["regeneration"] = {k: (v if not isinstance(v, list) else v[:10]) for k, v in cmp_.items()}
        if cmp_.get("error") or cmp_.get("only_generated") or cmp_.get("only_shipped_generated_files") or cmp_.get("different_syntax_trees"):
            res["violations"].append({"sig": "C15:regeneration", "what": "astool does not regenerate the shipped streams package (file set or syntax trees differ)", "detail": res["regeneration"]})
        ok, detail = disturbed_destination(astool, sum((["-spec", os.path.join(REPO, "astool", sp)] for sp in SPECS), []) + ["-path", "github.com/go-fed/activity", "./streams"],
                                           gen0, os.path.join(scratch, "shipreuse"))
        res["shipped_disturbed_destination_equal"] = ok
        if ok is False:
            res["violations"].append({"sig": "C15:destination-state", "what": "astool's output for the shipped vocabularies depends on what an earlier run left in the destination directory", "detail": detail})
        shutil.rmtree(os.path.join(scratch, "ship0"))
        # ---- extension vocabularies
        k = 3 if tier == "quick" else 12
        for j in range(k):
            s = 0 if j == 0 else seed % 100000 + j * 7 + 1      # the first extension is the fixed adversarial one
            e = os.path.join(scratch, "ext%d" % s)
            os.makedirs(e)
            spec = os.path.join(e, "ext.jsonld")
            rc, out = sh(["python3", os.path.join(ROOT, "tools", "c15", "genext.py"), str(s), spec])
            info = {"seed": s}
            try:
                info.update(json.loads(out.strip().splitlines()[-1]))
            except Exception:
                pass
            def fail(sig, what, detail):
                os.makedirs(keep, exist_ok=True)
                shutil.copyfile(spec, os.path.join(keep, "ext%d.jsonld" % s))
                res["violations"].append({"sig": sig, "what": what, "detail": detail, "ontology": os.path.join(keep, "ext%d.jsonld" % s), "seed": s})
            rc, out = sh([astool, "-spec", os.path.join(REPO, "astool", "activitystreams.jsonld"), "-spec", spec, "-path", "example.com/ext", "./streams"], cwd=e)
            if rc != 0 or not os.path.isdir(os.path.join(e, "streams")):
                fail("C15:ext-astool", "astool fails on a well-formed extension vocabulary", out[-2000:])
                res["extensions"].append(info); continue
            open(os.path.join(e, "go.mod"), "w").write("module example.com/ext\ngo 1.22\n")
            rc, out = sh(["go", "build", "./..."], cwd=e)
            info["compiles"] = rc == 0
            if rc != 0:
                fail("C15:ext-compile", "the code astool emits for an extension vocabulary does not compile", out[-2000:])
                res["extensions"].append(info); continue
            v = os.path.join(e, "v")
            os.makedirs(v)
            rc, out = sh([os.path.join(ROOT, "tools", "bin", "translate"), "-repo", e, "-out", v])
            info["translate"] = out.strip().splitlines()[-1] if out.strip() else ""
            vocab = [d for d in os.listdir(os.path.join(e, "streams", "impl")) if d not in ("activitystreams", "jsonld")]
            specs = "activitystreams=%s,%s=%s" % (os.path.join(REPO, "astool", "activitystreams.jsonld"), vocab[0] if vocab else "ext", spec)
            rc2, out2 = sh(["python3", os.path.join(ROOT, "tools", "ontology", "onto.py")], env=dict(ENV, VERIF_OUT=v, VERIF_SPECS=specs))
            if rc != 0 or rc2 != 0:
                fail("C15:ext-translate", "the generated code of an extension cannot be read back", (out + out2)[-2000:])
                res["extensions"].append(info); continue
            c = os.path.join(e, "coq")
            for f in TABLE_DEV:
                os.makedirs(os.path.join(c, os.path.dirname(f)), exist_ok=True)
                shutil.copyfile(os.path.join(ROOT, "coq", f), os.path.join(c, f))
            os.makedirs(os.path.join(c, "Gen"))
            for f in os.listdir(os.path.join(v, "coq", "Gen")):
                shutil.copyfile(os.path.join(v, "coq", "Gen", f), os.path.join(c, "Gen", f))
            proj = ["-Q . Verif", "-arg -w -arg -notation-overridden,-deprecated-hint-without-locality,-deprecated", "Base/ListX.v", "Vocab/Tables.v", "Vocab/Ontology.v",
                    "Gen/TablesShipped.v", "Gen/OntologyShipped.v", "Gen/PubShipped.v"] + [f for f in TABLE_DEV if f not in ("Base/ListX.v", "Vocab/Tables.v", "Vocab/Ontology.v")]
            open(os.path.join(c, "_CoqProject"), "w").write("\n".join(proj) + "\n")
            sh(["coq_makefile", "-f", "_CoqProject", "-o", "Makefile"], cwd=c)
            t0 = time.time()
            rc, out = sh(["make", "-j16"], cwd=c, timeout=3000)
            info["theorems_rechecked"] = rc == 0
            info["coq_seconds"] = round(time.time() - t0, 1)
            if rc != 0:
                i = out.find("Error")
                fail("C15:ext-theorems", "a theorem of C13 / C14 / C12 / C18 does not hold of the code astool emitted for an extension vocabulary", out[max(0, i - 400):i + 1500])
            res["extensions"].append(info)
            res["runs"] += 1
            if s == 0:
                ok, detail = disturbed_destination(astool, ["-spec", os.path.join(REPO, "astool", "activitystreams.jsonld"), "-spec", spec, "-path", "example.com/ext", "./streams"], os.path.join(e, "streams"), os.path.join(e, "reuse"))
                info["disturbed_destination_equal"] = ok
                if ok is False:
                    fail("C15:destination-state", "astool's output for the same input depends on what an earlier run left in the destination directory", detail)
            shutil.rmtree(e, ignore_errors=True)
        return res
    finally:
        shutil.rmtree(scratch, ignore_errors=True)
        print(json.dumps(res))


if __name__ == "__main__":
    main()
