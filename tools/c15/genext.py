#!/usr/bin/env python3
"""Random well-formed extension vocabulary layered on ActivityStreams, in the shape of astool/toot.jsonld."""
import json, random, sys

AS_TYPES = ["Object", "Activity", "IntransitiveActivity", "Note", "Article", "Collection", "OrderedCollection", "Person", "Link", "Image", "Document", "Create", "Place", "Question", "Travel"]
XSD = ["xsd:string", "xsd:boolean", "xsd:float", "xsd:nonNegativeInteger", "xsd:dateTime", "xsd:duration", "xsd:anyURI"]

def as_ref(n):
    return {"type": "owl:Class", "url": "https://www.w3.org/ns/activitystreams#" + n, "name": "as:" + n}

def adversarial():
    """A fixed extension exercising the orders random generation rarely hits: a diamond whose lower types list an already
    reached parent before a new one, parents from two vocabularies in both orders, domains naming an own type before
    existing ones, natural-language properties functional and not, a property withheld from a descendant."""
    ns = "https://ext0.example/ns"
    def own(n):
        return {"type": "owl:Class", "url": ns + "#" + n, "name": n}
    def cls(name, parents):
        return {"id": ns + "#" + name, "type": "owl:Class", "example": {}, "subClassOf": parents[0] if len(parents) == 1 else parents,
                "disjointWith": [], "name": name, "url": ns + "#" + name}
    def prop(name, dom, rng, functional=False, without=None):
        m = {"id": ns + "#" + name, "type": ["rdf:Property", "owl:FunctionalProperty"] if functional else "rdf:Property", "example": {},
             "domain": {"type": "owl:Class", "unionOf": dom}, "isDefinedBy": ns + "#" + name,
             "range": {"type": "owl:Class", "unionOf": rng if len(rng) > 1 else rng[0]}, "name": name, "url": ns + "#" + name}
        if without:
            m["@wtf_without_property"] = without
        return m
    members = [
        cls("X0Base", [as_ref("Object")]),
        cls("X0Left", [own("X0Base")]),
        cls("X0Right", [own("X0Base"), as_ref("Place")]),
        cls("X0Bottom", [own("X0Left"), own("X0Right")]),
        cls("X0Deep", [own("X0Left"), own("X0Bottom"), as_ref("Document")]),
        cls("X0Mixed", [as_ref("Note"), own("X0Base")]),
        cls("X0Deeper", [own("X0Deep")]),                      # two levels below X0Bottom, from which x0kept is withheld
        cls("X0Trip", [as_ref("Travel")]),                     # two levels below as:IntransitiveActivity, which has no 'object'
        cls("X0Ask", [as_ref("Question"), own("X0Base")]),
        prop("x0first", [own("X0Left"), as_ref("Note"), as_ref("Article")], ["xsd:string"]),
        prop("x0second", [as_ref("Person"), own("X0Right"), as_ref("Collection")], [own("X0Bottom"), as_ref("Link"), "xsd:anyURI"], functional=True),
        prop("x0words", [own("X0Base")], ["xsd:string", "rdf:langString"]),
        prop("x0word", [own("X0Base"), as_ref("Activity")], ["xsd:string", "rdf:langString"], functional=True),
        prop("x0kept", [own("X0Base")], ["xsd:dateTime", "xsd:duration"], without=[own("X0Bottom")]),
        prop("x0count", [own("X0Mixed"), as_ref("Question")], ["xsd:nonNegativeInteger", "xsd:boolean", "xsd:float"]),
        prop("x0fkept", [own("X0Base")], ["xsd:boolean", own("X0Left")], functional=True, without=[own("X0Right")]),   # functional and withheld
        prop("x0title", [own("X0Base"), own("X0Trip")], ["xsd:string", "rdf:langString"]),
        prop("x0motto", [own("X0Trip")], ["rdf:langString", "xsd:string"], functional=True),
        # natural-language maps together with types in the range: the language-map accessors are there all the same
        prop("x0caption", [own("X0Base"), as_ref("Note")], ["xsd:string", "rdf:langString", as_ref("Object"), own("X0Left")]),
        prop("x0label", [own("X0Right")], [own("X0Base"), "rdf:langString", "xsd:string"], functional=True),
        # a range that lists a type together with one of its own descendants (and the descendant first)
        prop("x0packed", [own("X0Base"), as_ref("Note")], [own("X0Left"), own("X0Base"), "xsd:string"]),
    ]
    ctx = gen(1)[0]["@context"]
    return {"@context": ctx, "id": ns, "type": "owl:Ontology", "name": "Ext0", "members": members}, ["X0Base", "X0Left", "X0Right", "X0Bottom", "X0Deep", "X0Mixed", "X0Deeper", "X0Trip", "X0Ask"], ns


def gen(seed):
    if seed == 0:
        return adversarial()
    r = random.Random(seed)
    ns = "https://ext%d.example/ns" % seed
    tag = "X%d" % seed
    def own_ref(n):
        return {"type": "owl:Class", "url": ns + "#" + n, "name": n}
    types = []
    members = []
    ntypes = r.randint(1, 6)
    for i in range(ntypes):
        name = "%sKind%d" % (tag, i)
        parents = []
        for _ in range(1 if r.random() < 0.7 else 2):
            if types and r.random() < 0.4:
                p = own_ref(r.choice(types))
            else:
                p = as_ref(r.choice(["Object", "Activity", "Note", "Collection", "Person", "Document", "Place", "Travel", "Question", "Arrive"]))
            if p not in parents:
                parents.append(p)
        # two parents must not be disjoint in ActivityStreams: Object-family only (no Link)
        m = {"id": ns + "#" + name, "type": "owl:Class", "example": {}, "subClassOf": parents[0] if len(parents) == 1 else parents,
             "disjointWith": [], "name": name, "url": ns + "#" + name}
        types.append(name)
        members.append(m)
    nprops = r.randint(1, 8)
    for i in range(nprops):
        name = "%sprop%d" % (tag.lower(), i)
        functional = r.random() < 0.5
        dom = []
        for _ in range(r.randint(1, 3)):
            d = own_ref(r.choice(types)) if r.random() < 0.6 else as_ref(r.choice(["Object", "Activity", "Note", "Person", "Collection"]))
            if d not in dom:
                dom.append(d)
        rng = []
        natural = r.random() < 0.25
        if natural:
            rng = ["xsd:string", "rdf:langString"]
        else:
            for _ in range(r.randint(1, 3)):
                c = r.random()
                if c < 0.4:
                    x = r.choice(XSD)
                elif c < 0.7:
                    x = own_ref(r.choice(types))
                else:
                    x = as_ref(r.choice(["Object", "Link", "Note", "Person", "Collection", "Image"]))
                if x not in rng:
                    rng.append(x)
        m = {"id": ns + "#" + name, "type": ["rdf:Property", "owl:FunctionalProperty"] if functional else "rdf:Property", "example": {},
             "domain": {"type": "owl:Class", "unionOf": dom}, "isDefinedBy": ns + "#" + name,
             "range": {"type": "owl:Class", "unionOf": rng if len(rng) > 1 else rng[0]}, "name": name, "url": ns + "#" + name}
        # withheld from some of the extension's own types that would inherit it
        own_domain = [d["name"] for d in dom if not d["name"].startswith("as:")]
        children = [t for t in types if t not in own_domain]
        if children and own_domain and r.random() < 0.3:
            m["@wtf_without_property"] = [own_ref(r.choice(children))]
        members.append(m)
    ctx = [{"as": "https://www.w3.org/ns/activitystreams", "owl": "http://www.w3.org/2002/07/owl#", "rdf": "http://www.w3.org/1999/02/22-rdf-syntax-ns#",
            "rdfs": "http://www.w3.org/2000/01/rdf-schema#", "rfc": "https://tools.ietf.org/html/", "schema": "http://schema.org/", "xsd": "http://www.w3.org/2001/XMLSchema#"},
           {"domain": "rdfs:domain", "example": "schema:workExample", "isDefinedBy": "rdfs:isDefinedBy", "mainEntity": "schema:mainEntity", "members": "owl:members",
            "name": "schema:name", "notes": "rdfs:comment", "range": "rdfs:range", "subClassOf": "rdfs:subClassOf", "disjointWith": "owl:disjointWith",
            "subPropertyOf": "rdfs:subPropertyOf", "unionOf": "owl:unionOf", "url": "schema:URL"}]
    return {"@context": ctx, "id": ns, "type": "owl:Ontology", "name": "Ext%d" % seed, "members": members}, types, ns

if __name__ == "__main__":
    seed = int(sys.argv[1])
    doc, types, ns = gen(seed)
    json.dump(doc, open(sys.argv[2], "w"), indent=1)
    print(json.dumps({"types": types, "ns": ns, "n_members": len(doc["members"])}))
