#!/usr/bin/env python3
"""Confirm a sub-agent's mutant myself and store it under seeded/<id>/.
usage: seed_confirm.py <Cxx> <n> [<srcroot> [<store-as-n>]]   (reads <srcroot>/<Cxx>/patch<n>.diff, demo<n>_test.go, meta<n>.json; srcroot defaults to /tmp/mut)"""
import json, os, re, shutil, subprocess, sys
prop, n = sys.argv[1], sys.argv[2]
src = "%s/%s" % (sys.argv[3] if len(sys.argv) > 3 else "/tmp/mut", prop)
store_n = sys.argv[4] if len(sys.argv) > 4 else n
wt = "/var/tmp/seedwt-%s-%s" % (prop, store_n)
env = dict(os.environ, GOFLAGS="-mod=mod", GOPROXY="off", GOSUMDB="off", GOTOOLCHAIN="local")
def sh(cmd, cwd=None, timeout=1500):
    p = subprocess.run(cmd, cwd=cwd, env=env, shell=True, stdout=subprocess.PIPE, stderr=subprocess.STDOUT, timeout=timeout)
    return p.returncode, p.stdout.decode("utf-8", "replace")
patch = os.path.join(src, "patch%s.diff" % n)
demo = os.path.join(src, "demo%s_test.go" % n)
meta = json.load(open(os.path.join(src, "meta%s.json" % n)))
sh("git -C /repo worktree remove --force %s" % wt)
rc, out = sh("git -C /repo worktree add -q --detach %s HEAD" % wt)
res = {"property": prop, "n": n}
try:
    text = open(demo).read()
    m = re.search(r"//\s*place in:\s*(\S+)", text)
    place = (m.group(1) if m else "pub/").rstrip("/")
    tests = re.findall(r"^func (Test\w+)\(", text, re.M)
    dst = os.path.join(wt, place, "zz_seed_demo_test.go")
    shutil.copyfile(demo, dst)
    runre = "^(" + "|".join(tests) + ")$"
    demo_cmd = "go test -vet=off -count=1 -run '%s' ./%s/" % (runre, place)
    rc0, out0 = sh(demo_cmd, cwd=wt)
    res["demo_clean_rc"] = rc0
    rca, outa = sh("git apply %s" % patch, cwd=wt)
    res["apply_rc"] = rca
    rcb, outb = sh("go build ./...", cwd=wt)
    res["build_rc"] = rcb
    rc1, out1 = sh(demo_cmd, cwd=wt)
    res["demo_patched_rc"] = rc1
    os.remove(dst)
    rct, outt = sh("python3 /verif/tools/baseline_check.py %s" % wt)
    res["baseline_rc"] = rct
    res["baseline"] = outt.strip().split("\n")[0]
    ok = rc0 == 0 and rca == 0 and rcb == 0 and rc1 != 0 and rct == 0
    res["confirmed"] = ok
    if ok:
        d = "/verif/seeded/%s-%s" % (prop, store_n)
        os.makedirs(d, exist_ok=True)
        shutil.copyfile(patch, os.path.join(d, "patch.diff"))
        shutil.copyfile(demo, os.path.join(d, "demo_test.go"))
        json.dump({"property": prop, "summary": meta.get("summary"), "needs": meta.get("needs"),
                   "origin": "independent sub-agent given only the property text and a scratch worktree",
                   "confirmed_by_me": {"repo_head": subprocess.check_output("git -C /repo rev-parse --short HEAD", shell=True).decode().strip(),
                                       "demo_cmd": "copy demo_test.go to %s/ ; %s" % (place, demo_cmd),
                                       "demo_on_clean_tree": "pass", "demo_with_patch": "FAIL", "go_build": "ok",
                                       "baseline_700_tests": res["baseline"]},
                   "detected_by": []}, open(os.path.join(d, "meta.json"), "w"), indent=1)
    else:
        res["out"] = (out0[-400:] if rc0 else "") + (outa[-300:] if rca else "") + (outb[-300:] if rcb else "") + (out1[-200:] if rc1 == 0 else "") + (outt[-400:] if rct else "")
finally:
    sh("git -C /repo worktree remove --force %s" % wt)
print(json.dumps(res))
