"""Per-property checks. Each returns the process exit code."""
import json, os, re, shutil
from checklib import *


def parse_tuples4(s):
    s = re.sub(r"\s+", " ", s)
    return [(m.group(1), m.group(2), m.group(3), m.group(4) == "true")
            for m in re.finditer(r'\("([^"]*)", "([^"]*)", "([^"]*)", (true|false)\)', s)]


def proof_stage(ctx, prop_file, extra_targets=()):
    """Translate + make the property's theorems. Returns dict describing the outcome."""
    ok_t, out_t = run_translators(ctx)
    if not ok_t:
        return {"built": False, "translator_failed": True, "out": out_t, "checker_cmd": "tools/bin/translate"}
    vo = prop_file[:-2] + ".vo"
    ok, out, cmd = coq_make(ctx, [vo] + list(extra_targets))
    n, names = count_theorems(prop_file)
    res = {"built": ok, "out": out, "checker_cmd": cmd, "obligations": n, "theorems": names}
    if ok:
        rc, pa = print_assumptions(ctx, prop_file)
        closed, axioms = assumptions_of(pa)
        res["assumptions_closed"] = closed
        res["axioms"] = axioms
        res["discharged"] = n
    else:
        path, name, err = broken_theorem(out)
        res.update({"broken_file": path, "broken_lemma": name, "error": err, "discharged": 0})
        ctx.note("proof obligation broken: %s in %s" % (name, path))
    return res


def cov_from_proof(ctx, pr, model_files):
    ctx.coverage.update({
        "obligations": pr.get("obligations", 0), "discharged": pr.get("discharged", 0),
        "theorems": pr.get("theorems", []),
        "checker_cmd": pr.get("checker_cmd", ""),
        "print_assumptions": {"closed_under_global_context": pr.get("assumptions_closed", 0), "axioms": pr.get("axioms", [])},
        "trusted_base": TRUSTED_COMMON + model_files,
    })


def cov_from_summary(ctx, summ):
    if not summ:
        return
    ctx.coverage.update({
        "evaluations": summ.get("evaluations", 0), "distinct_nontrivial": summ.get("distinct_nontrivial", 0),
        "rule": summ.get("rule", ""), "samples": summ.get("samples", []),
        "input_distribution": summ.get("distribution", {}), "exhaustive": bool(summ.get("exhaustive", False)),
    })


# ------------------------------------------------------------------------------------------------ C13

def check_C13(ctx):
    pr = proof_stage(ctx, "Properties/C13.v")
    cov_from_proof(ctx, pr, ["Vocab/Spec.v (closures)", "Streams/Hier.v (membership tests over the literal lists)",
                             "modelled, not verified: that Go's string comparison of GetTypeName() is the membership test"])
    okb, outb = harness_build(ctx)
    if not okb:
        ctx.violation("C13:harness-build", "harness does not build against the tree", {"kind": "build", "output": outb[-3000:],
                      "unchecked": "correspondence C13 observed-vs-tables"}, nofail=True)
        return finish(ctx, "proof")
    rc, out, summ = harness_run(ctx, ["c13"])
    cov_from_summary(ctx, summ)
    for v in (summ or {}).get("violations", []):
        ctx.violation(v["signature"], v["what"], {"kind": "direct", "replay": v["replay"]})
    # model files needed by the cases file (they build even when a proof is broken)
    okm, outm, _ = coq_make(ctx, ["Streams/Hier.vo", "Vocab/Spec.vo", "Gen/TablesShipped.vo", "Gen/OntologyShipped.vo"])
    shutil.copyfile(os.path.join(ROOT, "coq", "Run", "C13Cases.v"), os.path.join(ctx.rundir, "cases.v"))
    found_input = False
    rcc, outc = coqc_run(ctx, "observed.v")
    rcc, outc = coqc_run(ctx, "cases.v") if okm and rcc == 0 else (1, outm + outc)
    if rcc != 0:
        ctx.violation("C13:cases-eval", "model evaluation failed", {"kind": "coqc", "output": outc[-3000:],
                      "unchecked": "correspondence C13 observed-vs-tables"}, nofail=True)
        return finish(ctx, "proof")
    defs = parse_defs(outc)
    mm = parse_tuples4(defs.get("model_mismatch", ""))
    sm = parse_tuples4(defs.get("spec_mismatch", ""))
    cm = parse_tuples4(defs.get("consistency_mismatch", ""))
    nobs = int(re.sub(r"\D", "", defs.get("n_observed", "0")) or 0)
    ctx.coverage["traces_validated_against_impl"] = nobs * 5 - len(mm)
    ctx.coverage["disagreements"] = {"observed_vs_tables": len(mm), "observed_vs_spec": len(sm), "consistency": len(cm)}
    for (a, b, pred, obs) in (sm + cm)[:20]:
        found_input = True
        ctx.violation("C13:%s:%s:%s" % (pred, a, b),
                      "%s(%s, %s) is %s on the real code, the ontology's closure says %s" % (pred, a, b, obs, not obs),
                      {"kind": "pair", "a": a, "b": b, "predicate": pred, "observed": obs, "expected": (not obs)})
    if mm and not found_input:
        a, b, pred, obs = mm[0]
        ctx.violation("C13:table-drift:%s" % pred, "translator tables disagree with the running code",
                      {"kind": "correspondence", "projection": "C13 observed-vs-tables", "first": [a, b, pred, obs], "count": len(mm)}, nofail=True)
    if not pr["built"] and not found_input:
        ctx.violation("C13:proof:%s" % pr.get("broken_lemma"), "theorem no longer checks",
                      {"kind": "proof", "file": pr.get("broken_file"), "theorem": pr.get("broken_lemma"), "error": pr.get("error", pr.get("out", ""))[-3000:]}, nofail=True)
    if defs.get("saturated_now", "").strip() != "true" and not found_input:
        ctx.violation("C13:ontology-not-saturated", "closure fuel insufficient for this ontology", {"kind": "proof", "theorem": "ont_saturated"}, nofail=True)
    return finish(ctx, "proof")


def replay_C13(ctx):
    r = json.load(open(ctx.replay_path))
    ok, out = harness_build(ctx)
    rc, out, summ = harness_run(ctx, ["c13"])
    run_translators(ctx)
    coq_make(ctx, ["Streams/Hier.vo", "Vocab/Spec.vo", "Gen/TablesShipped.vo", "Gen/OntologyShipped.vo"])
    shutil.copyfile(os.path.join(ROOT, "coq", "Run", "C13Cases.v"), os.path.join(ctx.rundir, "cases.v"))
    coqc_run(ctx, "observed.v")
    rcc, outc = coqc_run(ctx, "cases.v")
    defs = parse_defs(outc)
    bad = [t for t in parse_tuples4(defs.get("spec_mismatch", "")) + parse_tuples4(defs.get("consistency_mismatch", ""))
           if r.get("kind") != "pair" or (t[0] == r["a"] and t[1] == r["b"] and t[2] == r["predicate"])]
    print("replay: %s" % ("FAILS " + repr(bad[:3]) if bad else "passes"))
    return 1 if bad else 0
