"""Per-property checks. Each returns the process exit code."""
import json, os, re, shutil
from checklib import *


def parse_tuples4(s):
    s = re.sub(r"\s+", " ", s)
    return [(m.group(1), m.group(2), m.group(3), m.group(4) == "true")
            for m in re.finditer(r'\("([^"]*)", "([^"]*)", "([^"]*)", (true|false)\)', s)]


def proof_stage(ctx, prop_file, extra_targets=()):
    """Translate + make the property's theorems. Returns dict describing the outcome."""
    ok_t, out_t = run_translators(ctx)
    if not ok_t:
        return {"built": False, "translator_failed": True, "out": out_t, "checker_cmd": "tools/bin/translate"}
    vo = prop_file[:-2] + ".vo"
    ok, out, cmd = coq_make(ctx, [vo] + list(extra_targets))
    n, names = count_theorems(prop_file)
    res = {"built": ok, "out": out, "checker_cmd": cmd, "obligations": n, "theorems": names}
    if ok:
        rc, pa = print_assumptions(ctx, prop_file)
        closed, axioms = assumptions_of(pa)
        res["assumptions_closed"] = closed
        res["axioms"] = axioms
        res["discharged"] = n
    else:
        path, name, err = broken_theorem(out)
        res.update({"broken_file": path, "broken_lemma": name, "error": err, "discharged": 0})
        ctx.note("proof obligation broken: %s in %s" % (name, path))
    return res


def cov_from_proof(ctx, pr, model_files):
    ctx.coverage.update({
        "obligations": pr.get("obligations", 0), "discharged": pr.get("discharged", 0),
        "theorems": pr.get("theorems", []),
        "checker_cmd": pr.get("checker_cmd", ""),
        "print_assumptions": {"closed_under_global_context": pr.get("assumptions_closed", 0), "axioms": pr.get("axioms", [])},
        "trusted_base": TRUSTED_COMMON + model_files,
    })


def cov_from_summary(ctx, summ):
    if not summ:
        return
    ctx.coverage.update({
        "evaluations": summ.get("evaluations", 0), "distinct_nontrivial": summ.get("distinct_nontrivial", 0),
        "rule": summ.get("rule", ""), "samples": summ.get("samples", []),
        "input_distribution": summ.get("distribution", {}), "exhaustive": bool(summ.get("exhaustive", False)),
    })


# ------------------------------------------------------------------------------------------------ C13

def check_C13(ctx):
    pr = proof_stage(ctx, "Properties/C13.v")
    cov_from_proof(ctx, pr, ["Vocab/Spec.v (closures)", "Streams/Hier.v (membership tests over the literal lists)",
                             "modelled, not verified: that Go's string comparison of GetTypeName() is the membership test"])
    okb, outb = harness_build(ctx)
    if not okb:
        ctx.violation("C13:harness-build", "harness does not build against the tree", {"kind": "build", "output": outb[-3000:],
                      "unchecked": "correspondence C13 observed-vs-tables"}, nofail=True)
        return finish(ctx, "proof")
    rc, out, summ = harness_run(ctx, ["c13"])
    cov_from_summary(ctx, summ)
    for v in (summ or {}).get("violations", []):
        ctx.violation(v["signature"], v["what"], {"kind": "direct", "replay": v["replay"]})
    # model files needed by the cases file (they build even when a proof is broken)
    okm, outm, _ = coq_make(ctx, ["Streams/Hier.vo", "Vocab/Spec.vo", "Gen/TablesShipped.vo", "Gen/OntologyShipped.vo"])
    shutil.copyfile(os.path.join(ROOT, "coq", "Run", "C13Cases.v"), os.path.join(ctx.rundir, "cases.v"))
    found_input = False
    rcc, outc = coqc_run(ctx, "observed.v")
    rcc, outc = coqc_run(ctx, "cases.v") if okm and rcc == 0 else (1, outm + outc)
    if rcc != 0:
        ctx.violation("C13:cases-eval", "model evaluation failed", {"kind": "coqc", "output": outc[-3000:],
                      "unchecked": "correspondence C13 observed-vs-tables"}, nofail=True)
        return finish(ctx, "proof")
    defs = parse_defs(outc)
    mm = parse_tuples4(defs.get("model_mismatch", ""))
    sm = parse_tuples4(defs.get("spec_mismatch", ""))
    cm = parse_tuples4(defs.get("consistency_mismatch", ""))
    nobs = int(re.sub(r"\D", "", defs.get("n_observed", "0")) or 0)
    ctx.coverage["traces_validated_against_impl"] = nobs * 5 - len(mm)
    ctx.coverage["disagreements"] = {"observed_vs_tables": len(mm), "observed_vs_spec": len(sm), "consistency": len(cm)}
    for (a, b, pred, obs) in (sm + cm)[:20]:
        found_input = True
        ctx.violation("C13:%s:%s:%s" % (pred, a, b),
                      "%s(%s, %s) is %s on the real code, the ontology's closure says %s" % (pred, a, b, obs, not obs),
                      {"kind": "pair", "a": a, "b": b, "predicate": pred, "observed": obs, "expected": (not obs)})
    if mm and not found_input:
        a, b, pred, obs = mm[0]
        ctx.violation("C13:table-drift:%s" % pred, "translator tables disagree with the running code",
                      {"kind": "correspondence", "projection": "C13 observed-vs-tables", "first": [a, b, pred, obs], "count": len(mm)}, nofail=True)
    if not pr["built"] and not found_input:
        ctx.violation("C13:proof:%s" % pr.get("broken_lemma"), "theorem no longer checks",
                      {"kind": "proof", "file": pr.get("broken_file"), "theorem": pr.get("broken_lemma"), "error": pr.get("error", pr.get("out", ""))[-3000:]}, nofail=True)
    if defs.get("saturated_now", "").strip() != "true" and not found_input:
        ctx.violation("C13:ontology-not-saturated", "closure fuel insufficient for this ontology", {"kind": "proof", "theorem": "ont_saturated"}, nofail=True)
    if ctx.tier == "thorough":
        coqchk_all(ctx, found_input)
    return finish(ctx, "proof")


def coqchk_all(ctx, found_input):
    """Thorough tier: the whole development (every Properties/Cxx.vo and what it depends on) re-checked by the independent
    checker coqchk, which also lists the axioms the compiled files rely on."""
    coq = os.path.join(ROOT, "coq")
    okm, outm, _ = coq_make(ctx, [], timeout=6000)
    mods = ["Verif.Properties.%s" % os.path.basename(f)[:-2] for f in sorted(glob.glob(os.path.join(coq, "Properties", "C*.v")))]
    rc, out, dt = sh(["coqchk", "-silent", "-o", "-Q", ".", "Verif"] + mods, cwd=coq, timeout=6 * 3600)
    ctx.note("coqchk %d modules rc=%d (%.0fs)" % (len(mods), rc, dt))
    i = out.find("CONTEXT SUMMARY")
    ctx.coverage["coqchk"] = {"modules": mods, "exit_code": rc, "seconds": round(dt), "built": okm, "summary": out[i:i + 3000] if i >= 0 else out[-3000:]}
    if (rc != 0 or not okm) and not found_input:
        ctx.violation("C13:coqchk", "the independent checker coqchk does not accept the compiled development",
                      {"kind": "proof", "theorem": "whole development (coqchk)", "error": (out if okm else outm)[-3000:]}, nofail=True)


def replay_C13(ctx):
    r = json.load(open(ctx.replay_path))
    ok, out = harness_build(ctx)
    rc, out, summ = harness_run(ctx, ["c13"])
    run_translators(ctx)
    coq_make(ctx, ["Streams/Hier.vo", "Vocab/Spec.vo", "Gen/TablesShipped.vo", "Gen/OntologyShipped.vo"])
    shutil.copyfile(os.path.join(ROOT, "coq", "Run", "C13Cases.v"), os.path.join(ctx.rundir, "cases.v"))
    coqc_run(ctx, "observed.v")
    rcc, outc = coqc_run(ctx, "cases.v")
    defs = parse_defs(outc)
    bad = [t for t in parse_tuples4(defs.get("spec_mismatch", "")) + parse_tuples4(defs.get("consistency_mismatch", ""))
           if r.get("kind") != "pair" or (t[0] == r["a"] and t[1] == r["b"] and t[2] == r["predicate"])]
    print("replay: %s" % ("FAILS " + repr(bad[:3]) if bad else "passes"))
    return 1 if bad else 0


# ------------------------------------------------------------------------------------------------ C14

def parse_natlist(s):
    return [int(x) for x in re.findall(r"\d+", s.split(":")[0])]


def parse_tuples3(s):
    s = re.sub(r"\s+", " ", s)
    return [(m.group(1), m.group(2), m.group(3)) for m in re.finditer(r'\("([^"]*)", "([^"]*)", "([^"]*)"\)', s)]


def generic_table_check(ctx, pid, prop_file, harness_cmd, cases_tpl, model_targets, model_files, interpret):
    """Shared flow of the translator-tied properties: proofs, harness, cases evaluation."""
    pr = proof_stage(ctx, prop_file)
    cov_from_proof(ctx, pr, model_files)
    okb, outb = harness_build(ctx)
    if not okb:
        ctx.violation(pid + ":harness-build", "harness does not build against the tree",
                      {"kind": "build", "output": outb[-3000:], "unchecked": "correspondence " + pid}, nofail=True)
        return finish(ctx, "proof")
    rc, out, summ = harness_run(ctx, harness_cmd)
    cov_from_summary(ctx, summ)
    if rc != 0 or summ is None:
        ctx.violation(pid + ":harness-run", "harness failed", {"kind": "harness", "output": out[-3000:], "unchecked": "correspondence " + pid}, nofail=True)
        return finish(ctx, "proof")
    found = False
    for v in summ.get("violations", []):
        if ctx.violation(v["signature"], v["what"], {"kind": "direct", "replay": v["replay"]}):
            found = True
    okm, outm, _ = coq_make(ctx, model_targets)
    shards = sorted(d for d in glob.glob(os.path.join(ctx.rundir, "shard_*")) if os.path.isdir(d) and os.path.exists(os.path.join(d, "index.json")))
    if shards and okm:
        # the harness wrote its observations as independent files: evaluate them in parallel, merge with the global indices
        t0 = time.time()
        procs = []
        for d in shards:
            shutil.copyfile(os.path.join(ROOT, "coq", "Run", cases_tpl), os.path.join(d, "cases.v"))
            base = "coqc -Q %s Verif -Q %s Run -w -notation-overridden,-deprecated-hint-without-locality,-deprecated " % (os.path.join(ROOT, "coq"), d)
            procs.append(subprocess.Popen("%sobserved.v && %scases.v" % (base, base), shell=True, cwd=d, stdout=subprocess.PIPE, stderr=subprocess.STDOUT))
        outs = []
        for prc in procs:
            o, _ = prc.communicate()
            outs.append((prc.returncode, o.decode("utf-8", "replace")))
        rcc = max(rc for rc, _ in outs)
        ctx.note("coqc %d shards rc=%d (%.1fs)" % (len(shards), rcc, time.time() - t0))
        outc = "\n".join(o for rc, o in outs if rc != 0)
        defs = {}
        if rcc == 0:
            merged, nobs = {}, 0
            for d, (_, o) in zip(shards, outs):
                idx = json.load(open(os.path.join(d, "index.json")))
                dd = parse_defs(o)
                nobs += int(re.sub(r"\D", "", dd.get("n_observed", "0").split(":")[0].replace("%nat", "")) or 0)
                for k, v in dd.items():
                    if k.endswith("_bad"):
                        flat = re.sub(r"\s+", " ", v)
                        for (i, msgs) in re.findall(r'\((\d+)(?:%nat)?, \[([^\]]*)\]\)', flat):
                            merged.setdefault(k, []).append((idx[int(i)], msgs))
            for k, l in merged.items():
                defs[k] = "[" + "; ".join("(%d, [%s])" % (i, m) for i, m in sorted(l)) + "]"
            defs["n_observed"] = str(nobs)
    else:
        shutil.copyfile(os.path.join(ROOT, "coq", "Run", cases_tpl), os.path.join(ctx.rundir, "cases.v"))
        rcc, outc = coqc_run(ctx, "observed.v") if okm else (1, outm)
        if rcc == 0:
            rcc, outc = coqc_run(ctx, "cases.v")
        defs = parse_defs(outc) if rcc == 0 else {}
    if rcc != 0:
        ctx.violation(pid + ":cases-eval", "model evaluation failed", {"kind": "coqc", "output": outc[-3000:], "unchecked": "correspondence " + pid}, nofail=True)
        return finish(ctx, "proof")
    found = interpret(ctx, defs, summ) or found
    if not pr["built"] and not found:
        ctx.violation("%s:proof:%s" % (pid, pr.get("broken_lemma")), "theorem no longer checks",
                      {"kind": "proof", "file": pr.get("broken_file"), "theorem": pr.get("broken_lemma"),
                       "error": (pr.get("error") or pr.get("out", ""))[-3000:]}, nofail=True)
    return finish(ctx, "proof")


def check_C14(ctx):
    def interpret(ctx, defs, summ):
        found = False
        mm = parse_natlist(defs.get("model_mismatch", ""))
        sm = parse_natlist(defs.get("spec_mismatch", ""))
        mmm = parse_tuples3(defs.get("matrix_model_mismatch", ""))
        msm = parse_tuples3(defs.get("matrix_spec_mismatch", ""))
        nobs = int(re.sub(r"\D", "", defs.get("n_observed", "0")) or 0)
        ctx.coverage["traces_validated_against_impl"] = nobs - len(mm) - len(mmm)
        ctx.coverage["disagreements"] = {"random_vs_model": len(mm), "random_vs_oracle": len(sm), "matrix_vs_model": len(mmm), "matrix_vs_oracle": len(msm)}
        cases = (summ.get("extra") or {}).get("random_cases", [])
        for (k, v, c) in msm[:10]:
            found = True
            ctx.violation("C14:%s:%s:%s" % (k, v, c), "%s resolver: value %s with callback for %s does not behave as 'invoke iff same type'" % (k, v, c),
                          {"kind": "pair", "resolver": k, "value": v, "callback": c})
        for i in sm[:10]:
            found = True
            ctx.violation("C14:random:%d" % i, "resolver outcome contradicts the dispatch rule", {"kind": "case", "index": i, "case": cases[i] if i < len(cases) else None})
        if (mm or mmm) and not found:
            ctx.violation("C14:table-drift", "resolver model over the translator's branch tables disagrees with the running code",
                          {"kind": "correspondence", "projection": "C14 observed-vs-model", "random": mm[:10], "matrix": mmm[:10]}, nofail=True)
        return found
    return generic_table_check(ctx, "C14", "Properties/C14.v", ["c14"], "C14Cases.v",
                               ["Streams/Resolver.vo", "Gen/TablesShipped.vo"],
                               ["Streams/Resolver.v (dispatch loops over the branch tables)",
                                "modelled, not verified: Go type switches / type assertions on func signatures are represented by the interface name in the signature; deserialisation success of a well-typed document is assumed (deser_ok = true)"],
                               interpret)


def replay_C14(ctx):
    return check_C14(ctx)


# ------------------------------------------------------------------------------------------------ C12

def parse_pairs(s):
    s = re.sub(r"\s+", " ", s)
    return [(m.group(1), m.group(2)) for m in re.finditer(r'\("([^"]*)", "([^"]*)"\)', s)]


def check_C12(ctx):
    def interpret(ctx, defs, summ):
        found = False
        am, asp = parse_pairs(defs.get("a_model_mismatch", "")), parse_pairs(defs.get("a_spec_mismatch", ""))
        bm, bsp = parse_pairs(defs.get("b_model_mismatch", "")), parse_pairs(defs.get("b_spec_mismatch", ""))
        lm = parse_pairs(defs.get("lit_mismatch", ""))
        nobs = int(re.sub(r"\D", "", defs.get("n_observed", "0")) or 0)
        ctx.coverage["traces_validated_against_impl"] = nobs - len(am) - len(bm) - len(lm)
        ctx.coverage["disagreements"] = {"type_prop_vs_tables": len(am), "type_prop_vs_ontology": len(asp),
                                         "prop_kind_vs_tables": len(bm), "prop_kind_vs_ontology": len(bsp), "literals_arrays_maps": len(lm)}
        for (t, p) in asp[:8]:
            found = True
            ctx.violation("C12:type-prop:%s:%s" % (t, p), "type %s and member %s: typed accessor / unknown-member placement contradicts the ontology" % (t, p),
                          {"kind": "type-prop", "type": t, "property": p, "document": {"type": t, p: "https://example.org/v"}})
        for (p, k) in bsp[:8]:
            found = True
            ctx.violation("C12:prop-kind:%s:%s" % (p, k), "property %s given a value of kind %s reports a kind outside its declared range (or fails to report one inside it)" % (p, k),
                          {"kind": "prop-kind", "property": p, "value_kind": k})
        for (what, x) in lm[:8]:
            found = True
            ctx.violation("C12:%s:%s" % (what, x), "%s: %s is not decoded to the value / shape the specification gives" % (what, x), {"kind": what, "input": x})
        if (am or bm) and not found:
            ctx.violation("C12:table-drift", "decoder model over the translator's tables disagrees with the running code",
                          {"kind": "correspondence", "projection": "C12 observed-vs-tables", "type_prop": am[:10], "prop_kind": bm[:10]}, nofail=True)
        return found
    return generic_table_check(ctx, "C12", "Properties/C12.v", ["c12"], "C12Cases.v",
                               ["Streams/TableSpec.vo", "Streams/Literals.vo", "Gen/TablesShipped.vo", "Gen/OntologyShipped.vo"],
                               ["Streams/TableSpec.v, Streams/Literals.v (lexical acceptance, dateTime and duration values)",
                                "modelled, not verified: encoding/json number/string typing, net/url (url_ok = has-scheme on the sample strings, checked by the harness), time.Parse (compared on every sampled lexical form), int64 wrap-around written explicitly"],
                               interpret)


def replay_C12(ctx):
    return check_C12(ctx)


# ------------------------------------------------------------------------------------------------ C18

def check_C18(ctx):
    def interpret(ctx, defs, summ):
        found = False
        mm = re.findall(r'"([^"]+)"', defs.get("model_mismatch", "").split(":")[0])
        sm = re.findall(r'"([^"]+)"', defs.get("spec_mismatch_noswap", "").split(":")[0])
        nsw = int(re.sub(r"\D", "", defs.get("spec_mismatch_swap", "0").split(":")[0]) or 0)
        nobs = int(re.sub(r"\D", "", defs.get("n_observed", "0").split(":")[0]) or 0)
        ctx.coverage["traces_validated_against_impl"] = nobs - len(mm)
        ctx.coverage["swap_fixed_in_template"] = defs.get("swap_fixed_now", "").strip().startswith("true")
        ctx.coverage["disagreements"] = {"sample_vs_cell_model": len(mm), "sample_vs_plain_list_without_swap": len(sm), "sample_vs_plain_list_with_swap": nsw}
        for pn in sm[:5]:
            found = True
            ctx.violation("C18:sample:" + pn, "property %s does not behave as a plain list on a sampled sequence" % pn, {"kind": "sample", "property": pn})
        if nsw and not any(v for v in (summ.get("violations") or [])):
            found = True
            ctx.violation("C18:swap-iteration", "iteration after Swap differs from the plain list", {"kind": "sample", "count": nsw})
        if mm and not found and not (summ.get("violations") or []):
            ctx.violation("C18:model-drift", "cell-level container model disagrees with the running code",
                          {"kind": "correspondence", "projection": "C18 sampled sequences vs Streams/Container.v", "properties": mm[:10]}, nofail=True)
        return found or bool(summ.get("violations"))
    return generic_table_check(ctx, "C18", "Properties/C18.v", ["c18"], "C18Cases.v",
                               ["Streams/Container.vo", "Streams/ContainerTemplate.vo", "Gen/TablesShipped.vo"],
                               ["Streams/Container.v (slice of iterator cells with their own indices), Streams/Slot.v (representation slots)",
                                "modelled, not verified: Go slice append/copy semantics as list operations; pointer identity of iterators (parent links) is not modelled beyond the index; At/Set/Remove/Insert with an out-of-range index panic in Go and are excluded by ops_in_range"],
                               interpret)


def replay_C18(ctx):
    return check_C18(ctx)


# ------------------------------------------------------------------------------------------------ pub properties (shared run)

import hashlib, subprocess, glob, time


def tree_key(extra):
    h = hashlib.sha256()
    h.update(subprocess.run("git -C %s rev-parse HEAD; git -C %s diff HEAD -- pub streams astool | sha256sum" % (REPO, REPO), shell=True, capture_output=True).stdout)
    for d in ("tools/harness", "coq/Pub", "coq/Base", "coq/Run"):
        for root, _, files in sorted(os.walk(os.path.join(ROOT, d))):
            for f in sorted(files):
                if f.endswith((".go", ".v")) and f != "gen_calls.go":
                    h.update(open(os.path.join(root, f), "rb").read())
    h.update(repr(extra).encode())
    return h.hexdigest()[:20]


def parse_idx_tuples(s):
    """[(i, (a, b, "c")); ...] or [(i, (k, "tag", "id", bool))] -> list of (i, [fields])"""
    s = re.sub(r"\s+", " ", s)
    out = []
    for m in re.finditer(r'\((\d+), \(([^()]*)\)\)', s):
        fields = [f.strip().strip('"') for f in re.split(r',(?=(?:[^"]*"[^"]*")*[^"]*$)', m.group(2))]
        out.append((int(m.group(1)), fields))
    return out


PUB_STD = {"quick": ["-families", "inbox,outbox,get", "-n", "6", "-faults", "single", "-maxruns", "4500", "-shards", "8"],
           "thorough": ["-families", "inbox,outbox,get", "-n", "40", "-faults", "single", "-maxruns", "30000", "-shards", "14"]}


def prune_cache(d, keep):
    """The cache of harness runs is keyed on the tree state: every changed tree adds entries. Keep the newest ones."""
    try:
        ents = sorted((os.path.join(d, e) for e in os.listdir(d)), key=os.path.getmtime)
        for e in ents[:-keep] if len(ents) > keep else []:
            shutil.rmtree(e, ignore_errors=True)
    except OSError:
        pass


def pub_run(ctx, tag, args, cases_tpl="PubMonitorCases.v"):
    """Run the pub harness with args, replay + monitors in Coq. Cached per tree state."""
    okb, outb = harness_build(ctx)
    if not okb:
        return {"error": "harness-build", "out": outb}
    tpl = open(os.path.join(ROOT, "coq", "Run", cases_tpl)).read()
    mods = sorted(set(m.replace(".", "/") + ".vo" for l in re.findall(r"^From Verif Require Import ([^\n]*?)\.$", tpl, re.M) for m in l.split()))
    okm, outm, _ = coq_make(ctx, ["Pub/Replay.vo", "Pub/Monitors.vo"] + mods)
    if not okm:
        return {"error": "model-build", "out": outm}
    key = tree_key((tag, args, ctx.seed, cases_tpl))
    cdir = os.path.join(ROOT, "run", "pubcache", key)
    res_path = os.path.join(cdir, "result.json")
    if os.path.exists(res_path):
        ctx.note("pub run %s: cached (%s)" % (tag, key))
        return json.load(open(res_path))
    os.makedirs(cdir, exist_ok=True)
    prune_cache(os.path.join(ROOT, "run", "pubcache"), keep=60)
    b = os.path.join(ROOT, "tools", "bin", "harness")
    rc, out, dt = sh([b, "pub"] + args + ["-out", cdir, "-seed", str(ctx.seed), "-tier", ctx.tier], timeout=3000)
    ctx.note("harness pub %s rc=%d (%.1fs) %s" % (tag, rc, dt, out.strip()[-80:]))
    if rc != 0:
        return {"error": "harness-run", "out": out[-3000:]}
    summ = json.load(open(os.path.join(cdir, "summary.json")))
    t0 = time.time()
    shard_dirs = sorted(d for d in glob.glob(os.path.join(cdir, "shard_*")) if os.path.isdir(d))
    units = [(d, json.load(open(os.path.join(d, "index.json")))) for d in shard_dirs] or [(cdir, None)]
    procs = []
    for d, _ in units:
        shutil.copyfile(os.path.join(ROOT, "coq", "Run", cases_tpl), os.path.join(d, "cases.v"))
        base = "coqc -Q %s Verif -Q %s Run " % (os.path.join(ROOT, "coq"), d)
        procs.append(subprocess.Popen("%sobserved.v && %scases.v" % (base, base), shell=True, cwd=d, stdout=subprocess.PIPE, stderr=subprocess.STDOUT))
    outs = []
    for pr in procs:
        try:
            o, _ = pr.communicate(timeout=3000)
        except subprocess.TimeoutExpired:
            pr.kill()
            o, _ = pr.communicate()
        outs.append((pr.returncode, o.decode("utf-8", "replace")))
    rc2 = max(rc for rc, _ in outs)
    ctx.note("coqc replay+monitors (%d file%s) rc=%d (%.1fs)" % (len(units), "s" if len(units) > 1 else "", rc2, time.time() - t0))
    if rc2 != 0:
        return {"error": "cases-eval", "out": "\n".join(o for rc, o in outs if rc != 0)[-3000:]}
    bad, stats, n = {}, {}, 0
    for (d, idx), (_, o) in zip(units, outs):
        defs = parse_defs(o)
        n += int(re.sub(r"\D", "", defs.get("n_observed", "0").split(":")[0]) or 0)
        for k, v in defs.items():
            if k.endswith("_bad"):
                bad.setdefault(k, []).extend((i if idx is None else idx[i], f) for (i, f) in parse_idx_tuples(v))
            elif k.endswith("_stats"):
                nums = [int(x) for x in re.findall(r"\d+", v.split(":")[0])]
                stats[k] = [a + b for a, b in zip(stats[k], nums)] if k in stats else nums
    for k in bad:
        bad[k].sort(key=lambda x: x[0])
    res = {"defs": bad, "n": n,
           "summary": {k: summ[k] for k in ("evaluations", "distinct_nontrivial", "rule", "distribution")},
           "stats": {k: "(" + ", ".join(str(x) for x in v) + ")" for k, v in stats.items()},
           "runs": summ["extra"]["runs"], "dir": cdir}
    json.dump(res, open(res_path, "w"))
    for d, _ in units:
        for fn in ("observed.vo", "observed.glob", "cases.vo", "cases.glob"):
            try:
                os.remove(os.path.join(d, fn))
            except OSError:
                pass
    return res


# which classes of replay disagreement concern which property
RELEVANT = {
    "C07": {"app", "response", "result"}, "C10": {"response", "result"}, "C09": {"lock", "db"},
    "C02": {"transport", "deliver"}, "C03": {"deliver", "response"}, "C05": {"db", "deliver", "response"},
    "C04": {"db", "deliver", "app"}, "C06": {"db", "app"}, "C16": {"db", "deliver"}, "C17": {"db", "deliver", "transport", "app"},
    "C20": {"response", "clock"}, "C11": {"result"},
}


def pub_property(ctx, pid, prop_file, model_files, judge, family_filter=None, run_specs=None):
    pr = proof_stage(ctx, prop_file)
    cov_from_proof(ctx, pr, model_files)
    found = False
    specs = run_specs or [("std", PUB_STD[ctx.tier])]
    res = None
    stats = {}
    for tag, args in specs:
        r1 = pub_run(ctx, tag, args)
        if "error" in r1:
            res = r1
            break
        stats[tag] = r1.get("stats", {})
        if res is None:
            res = r1
        else:  # concatenate, shifting indices
            off = len(res["runs"])
            res = {"defs": {k: res["defs"].get(k, []) + [(i + off, f) for (i, f) in r1["defs"].get(k, [])] for k in set(res["defs"]) | set(r1["defs"])},
                   "n": res["n"] + r1["n"], "runs": res["runs"] + r1["runs"],
                   "summary": {"evaluations": res["summary"]["evaluations"] + r1["summary"]["evaluations"], "distinct_nontrivial": 0,
                               "rule": res["summary"]["rule"], "distribution": {"first": res["summary"]["distribution"], tag: r1["summary"]["distribution"]}}}
    if "error" in res:
        ctx.violation("%s:%s" % (pid, res["error"]), "the correspondence run could not be performed", {"kind": res["error"], "output": res.get("out", "")[-3000:], "unchecked": "correspondence " + pid}, nofail=True)
        return finish(ctx, "proof")
    runs = res["runs"]
    sel = [i for i, r in enumerate(runs) if family_filter is None or family_filter(r["family"])]
    selset = set(sel)
    ctx.coverage.update({"evaluations": len(sel), "rule": res["summary"]["rule"] + "; " + judge.get("rule", ""),
                         "input_distribution": res["summary"]["distribution"], "samples": [runs[i] for i in sel[:2]]})
    ctx.coverage["monitor_stats"] = stats
    # direct judgement of the implementation's traces
    nbad = 0
    for name in judge["monitors"]:
        for (i, fields) in res["defs"].get(name, []):
            if i not in selset and name not in ("history_bad",):
                continue
            sig, text = judge["classify"](name, fields, runs[i] if i < len(runs) and name != "history_bad" else {"family": "seq", "faults": None})
            if sig is None:
                continue
            nbad += 1
            if ctx.violation(sig, text, {"kind": "run", "index": i, "run": runs[i] if name != "history_bad" else {"history_index": i, "see": "histories in observed.v of the run directory", "runs_of_family_seq": [r for r in runs if r["family"].startswith("seq:")][:40]}, "monitor": name, "detail": fields}):
                found = True
    ctx.coverage["distinct_nontrivial"] = len(set(json.dumps([runs[i]["family"], runs[i]["faults"], runs[i]["result"], runs[i]["events"]]) for i in sel if runs[i]["events"] > 3))
    # correspondence: replay disagreements of a class that concerns this property
    rel = RELEVANT.get(pid, set())
    disagreements = [(i, f) for (i, f) in res["defs"].get("replay_bad", []) if i in selset]
    relevant = [(i, f) for (i, f) in disagreements if (f[0] == "1" and "result" in rel) or (f[0] in ("2", "3") and (f[2] in rel or f[0] == "3"))]
    ctx.coverage["traces_validated_against_impl"] = len(sel) - len(disagreements)
    ctx.coverage["disagreements"] = {"replay_total": len(disagreements), "replay_relevant_to_property": len(relevant), "monitor_flags": nbad}
    if disagreements and not relevant:
        relevant = disagreements
    if relevant and not found:
        i, f = relevant[0]
        ctx.violation("%s:replay-drift" % pid, "the model of package pub no longer replays the recorded run",
                      {"kind": "correspondence", "projection": "%s replay (classes %s)" % (pid, sorted(rel)), "index": i, "detail": f, "run": runs[i], "count": len(relevant)}, nofail=True)
    if judge.get("extra"):
        found = judge["extra"](ctx) or found
    if not pr["built"] and not found:
        ctx.violation("%s:proof:%s" % (pid, pr.get("broken_lemma")), "theorem no longer checks",
                      {"kind": "proof", "file": pr.get("broken_file"), "theorem": pr.get("broken_lemma"), "error": (pr.get("error") or pr.get("out", ""))[-3000:]}, nofail=True)
    return finish(ctx, "proof")


def race_harness(ctx, sub, tag):
    """Build the harness with the race detector and run one of its subcommands; returns (ran, summary, output)."""
    renv = dict(GOENV)
    renv["CGO_ENABLED"] = "1"
    rc, out, dt = sh(["go", "build", "-race", "-tags", "verif", "-o", "../bin/harness-race", "."], cwd=os.path.join(ROOT, "tools", "harness"), timeout=900, env=renv)
    if rc != 0:
        return False, None, out
    rdir = os.path.join(ctx.rundir, tag)
    os.makedirs(rdir, exist_ok=True)
    rc2, out2, dt2 = sh([os.path.join(ROOT, "tools", "bin", "harness-race"), sub, "-out", rdir, "-seed", str(ctx.seed), "-tier", ctx.tier], timeout=1800)
    ctx.note("race-detector run %s rc=%d (%.1fs) %s" % (sub, rc2, dt2, out2.strip()[-100:]))
    summ = None
    if os.path.exists(os.path.join(rdir, "summary.json")):
        summ = json.load(open(os.path.join(rdir, "summary.json")))
    return True, summ, out2


def c20_concurrent(ctx):
    ran, summ, out = race_harness(ctx, "c20", "concurrent")
    if not ran:
        ctx.coverage["concurrent_service"] = {"ran": False, "why": out[-300:]}
        return False
    found = False
    ctx.coverage["concurrent_service"] = {"ran": True, "data_race_reports": out.count("WARNING: DATA RACE"), "distribution": (summ or {}).get("distribution")}
    for v in (summ or {}).get("violations", []):
        if ctx.violation(v["signature"], v["what"], {"kind": "concurrent-requests", "replay": v["replay"]}):
            found = True
    if "WARNING: DATA RACE" in out and not found:
        i = out.index("WARNING: DATA RACE")
        if ctx.violation("C20:concurrent:data-race", "the race detector reports a data race while responses are served concurrently", {"kind": "race", "output": out[i:i + 4000]}):
            found = True
    return found


SHAPE = {"quick": ["-families", "shape", "-n", "1", "-faults", "none", "-maxruns", "40000", "-shards", "8"],
         "thorough": ["-families", "shape", "-n", "4", "-faults", "none", "-maxruns", "40000", "-shards", "14"]}
SHAPE_RULE = "; structural variants: each of actor / object / target / to / cc / bto / bcc / audience / id / type / inReplyTo / attributedTo of a valid request of every inbox and outbox type made absent, empty, doubled, a plain string, an embedded value without id"
OVERRIDES = ["-families", "overrides", "-n", "1", "-faults", "none", "-shards", "8"]
AGAIN = {"quick": ["-families", "again", "-n", "28", "-faults", "none", "-shards", "2"], "thorough": ["-families", "again", "-n", "160", "-faults", "single", "-shards", "8"]}
FOCUS_FAULTS = {"quick": ["-families", "fedfocus", "-n", "3", "-faults", "single", "-maxruns", "4000", "-shards", "8"],
                "thorough": ["-families", "fedfocus", "-n", "20", "-faults", "single", "-maxruns", "40000", "-shards", "14"]}
GATE = {"quick": ["-families", "gate", "-gate", "600", "-shards", "4"], "thorough": ["-families", "gate", "-gate", "0", "-maxruns", "60000", "-shards", "14"]}


def c07_concurrent(ctx):
    """Every request's authentication and block check are about that request, also while others are served: three concurrent
    inbox deliveries, the second by a blocked actor, under the scheduler of C08 (harness c08 -kinds blocked)."""
    cdir = os.path.join(ctx.rundir, "concurrent")
    shutil.rmtree(cdir, ignore_errors=True)
    os.makedirs(cdir)
    b = os.path.join(ROOT, "tools", "bin", "harness")
    rc, out, dt = sh([b, "c08", "-kinds", "blocked", "-sets", "2" if ctx.tier == "quick" else "6", "-bound", "2", "-cap", "150" if ctx.tier == "quick" else "1500",
                      "-random", "20" if ctx.tier == "quick" else "200", "-shards", "2", "-out", cdir, "-seed", str(ctx.seed), "-tier", ctx.tier], timeout=3000)
    if rc != 0:
        ctx.coverage["concurrent_requests"] = {"ran": False, "why": out[-300:]}
        return False
    okm, outm, _ = coq_make(ctx, ["Pub/Replay.vo", "Pub/Monitors.vo", "Pub/BaseActor.vo", "Pub/Util.vo"])
    units = sorted((d for d in glob.glob(os.path.join(cdir, "shard_*")) if os.path.isdir(d)), key=lambda d: int(d.rsplit("_", 1)[1]))
    found, nsched, flagged = False, 0, 0
    cases = (json.load(open(os.path.join(cdir, "summary.json"))).get("extra") or {}).get("cases", [])
    for d in units:
        shutil.copyfile(os.path.join(ROOT, "coq", "Run", "ConcCases.v"), os.path.join(d, "cases.v"))
        base = "coqc -Q %s Verif -Q %s Run " % (os.path.join(ROOT, "coq"), d)
        prc = subprocess.run("%sobserved.v && %scases.v" % (base, base), shell=True, cwd=d, stdout=subprocess.PIPE, stderr=subprocess.STDOUT)
        o = prc.stdout.decode("utf-8", "replace")
        if prc.returncode != 0:
            ctx.violation("C07:concurrent-eval", "the evaluation of the concurrent deliveries failed", {"kind": "cases-eval", "output": o[-2000:], "unchecked": "correspondence C07 concurrent"}, nofail=True)
            return False
        off = json.load(open(os.path.join(d, "index.json")))
        dd = parse_defs(o)
        nsched += int(re.sub(r"\D", "", dd.get("n_cases", "0").split(":")[0]) or 0)
        for (i, fields) in parse_idx_tuples(dd.get("conc_bad", "")):
            flagged += 1
            c = cases[i + off["case_offset"]] if i + off["case_offset"] < len(cases) else {}
            if ctx.violation("C07:concurrent:blocked", "three concurrent deliveries, the second by a blocked actor, schedule of %d choices: the blocked actor's activity was not refused without effect (%s)" % (len(c.get("schedule", [])), fields[1]),
                             {"kind": "schedule", "case": c, "detail": fields}):
                found = True
    ctx.coverage["concurrent_requests"] = {"ran": True, "schedules": nsched, "flagged": flagged}
    return found


def check_C07(ctx):
    def classify(name, fields, run):
        return ("C07:%s:%s" % (run["family"], fields[1][:40]), "%s: %s (%s)" % (run["family"], fields[1], run.get("note") or run["result"]))
    return pub_property(ctx, "C07", "Properties/C07.v",
                        ["Pub/BaseActor.v and below (free-monad model of package pub), Pub/Monitors.v gate_step",
                         "modelled, not verified: http.Header.Set is not an observable call; header strings are compared byte for byte; the handler takes no authentication (documented)"],
                        {"monitors": ["gate_bad"], "classify": classify, "extra": c07_concurrent,
                         "rule": "C07 product {entry} x {protocols} x {auth} x {block} x {method} x {12 header variants} x {4 bodies}: covering sample in the quick tier, complete in the thorough tier; plus all std scenarios with single faults"},
                        run_specs=[("gate", GATE[ctx.tier]), ("shape", SHAPE[ctx.tier]), ("again", AGAIN[ctx.tier]), ("std", PUB_STD[ctx.tier])])


def replay_C07(ctx):
    return check_C07(ctx)


def check_C10(ctx):
    def classify(name, fields, run):
        return ("C10:%s:%s" % (run["family"].split(":")[0], fields[1][:50]), "%s (faults %s): %s; statuses written %s, result %s" % (run["family"], run["faults"], fields[1], run["statuses"], run["result"]))
    return pub_property(ctx, "C10", "Properties/C10.v",
                        ["Pub/BaseActor.v and below, Pub/Monitors.v write_step / outcome_ok",
                         "modelled, not verified: faults of the ResponseWriter itself are outside the quantifier; header writes are observed when the status is written"],
                        {"monitors": ["outcome_bad", "status_bad"], "classify": classify,
                         "rule": "C07 request product plus every standard scenario with every single fault; judged by the strict outcome monitor (201 => Location = first generated id); the documented status: every status, header, body and (handled, error) result of the implementation compared with the model's on the same request, configuration and answers (judge status_bad)"},
                        run_specs=[("gate", GATE[ctx.tier]), ("shape", SHAPE[ctx.tier]), ("overrides", OVERRIDES), ("again", AGAIN[ctx.tier]), ("std", PUB_STD[ctx.tier])])


def replay_C10(ctx):
    return check_C10(ctx)


def check_C09(ctx):
    def classify(name, fields, run):
        tag, ident, loaded = fields[1], fields[2], fields[3]
        if tag == "relock" and loaded == "true" and run["family"].startswith(("inbox:", "shape:inbox:", "forward:")):
            return ("C09:relock-forwarding-collection", "InboxForwarding re-locks an owned collection whose deferred lock it still holds")
        return ("C09:%s:%s" % (tag, run["family"]), "%s (faults %s): %s of %s" % (run["family"], run["faults"], tag, ident))
    return pub_property(ctx, "C09", "Properties/C09.v",
                        ["Pub/*.v (model of every function of package pub that touches the Database), Pub/Monitors.v lock_step_gen",
                         "modelled, not verified: Go's defer (per-iteration closures as bracket, function-level defers of InboxForwarding as a pending list released in reverse order at return); Unlock's own error is ignored as in the code"],
                        {"monitors": ["lock_bad"], "classify": classify,
                         "rule": "every standard scenario fault-free and with every single fallible call failing (thorough: more scenarios); judged by the strict lock monitor" + SHAPE_RULE},
                        run_specs=[("shape", SHAPE[ctx.tier]), ("focusfaults", FOCUS_FAULTS[ctx.tier]), ("again", AGAIN[ctx.tier]), ("std", PUB_STD[ctx.tier])])


def replay_C09(ctx):
    return check_C09(ctx)


def check_C20(ctx):
    def classify(name, fields, run):
        return ("C20:%s:%s" % (run["family"], fields[1]), "%s: the %s written is not what the specification gives for the value the application supplied" % (run["family"], fields[1]))
    n = "60" if ctx.tier == "quick" else "600"
    return pub_property(ctx, "C20", "Properties/C20.v",
                        ["Pub/BaseActor.v (GetInbox, GetOutbox, handler), Pub/Util.v (dedupe_ordered_items, clear_sensitive), Base/Time.v (http_date), Pub/Monitors.v serve_step",
                         "modelled, not verified: SHA-256 / base64 (the harness recomputes them over the captured bytes), encoding/json marshalling (bodies are compared as JSON values), time.Format (compared on every generated instant), the top-level @context (C01)"],
                        {"monitors": ["serve_bad"], "classify": classify, "extra": c20_concurrent,
                         "rule": "random pages with 0..11 items as IRIs or embedded values with duplicates anywhere, a stored value of every vocabulary type, Tombstones, hidden recipients at object depth 0..2, random clock instants; every single fault"},
                        family_filter=lambda f: f.startswith(("get:", "again:get-twice")),
                        run_specs=[("get", ["-families", "get,gettypes", "-n", n, "-faults", "single", "-maxruns", "6000", "-shards", "4"]), ("again", AGAIN[ctx.tier])])


def replay_C20(ctx):
    return check_C20(ctx)


def check_C02(ctx):
    def classify(name, fields, run):
        return ("C02:%s:%s" % (run["family"].split(":")[0], fields[1][:48]), "%s (faults %s): %s" % (run["family"], run["faults"], fields[1]))
    n = "40" if ctx.tier == "quick" else "600"
    return pub_property(ctx, "C02", "Properties/C02.v",
                        ["Pub/SideEffect.v deliver / inboxes_from_db / resolve_actors / classify, Pub/Util.v filter_public / dedupe_iris / get_inbox, Pub/DeliverySpec.v (specification and trace judge)",
                         "interpretation: Public is removed from the addressed ids before anything is dereferenced; an entry of a dereferenced remote collection is dereferenced whatever its IRI (the code has no second filter and the statement asks for none); an actor document without an inbox fails the delivery (documented behaviour of getInboxes)",
                         "modelled, not verified: the HTTP transport itself (C19); goroutine-free sequential resolution as in the code"],
                        {"monitors": ["delivery_bad"], "classify": classify,
                         "rule": "random federation graphs (family deliver: up to 10 actors and collections, nested / cyclic collections, duplicates, both Public spellings, the sender, unreachable / garbled / unknown-type documents, any subset of stored inboxes, depth 1..4) through Send, plus every standard outbox scenario; single faults; the real trace is judged against spec_targets of the graph read off that trace"},
                        family_filter=lambda f: f.startswith(("outbox:", "send:", "deliver:", "again:two-outboxes")),
                        run_specs=[("deliver", ["-families", "deliver", "-n", n, "-faults", "single", "-maxruns", "6000", "-shards", "8"]), ("again", AGAIN[ctx.tier]), ("std", PUB_STD[ctx.tier])])


def replay_C02(ctx):
    return check_C02(ctx)


def check_C05(ctx):
    def classify(name, fields, run):
        if name == "history_bad":
            return ("C05:history", "after a sequence of posts %s" % fields[1])
        return ("C05:%s:%s" % (run["family"].split(":")[0], fields[1][:48]), "%s (faults %s): %s" % (run["family"], run["faults"], fields[1]))
    n = "30" if ctx.tier == "quick" else "400"
    return pub_property(ctx, "C05", "Properties/C05.v",
                        ["Pub/BaseActor.v deliver_outbox / post_outbox_http / send, Pub/Soc.v soc_callbacks / post_outbox, Pub/SideEffect.v add_to_outbox / add_new_ids / deliver, Pub/Monitors.v ord_step",
                         "modelled, not verified: the application's Database is assumed to return from GetOutbox what SetOutbox last stored (the history theorem's premise); Go map iteration order in the Social Create normalisation is a permutation parameter"],
                        {"monitors": ["order_bad", "create_bad", "history_bad"], "classify": classify,
                         "rule": "every standard outbox / Send scenario with every single fault, plus sequences of 1..8 posts to two outboxes against one evolving world (some posts rejected, some failing at a random call); judged by the ordering monitor, the fresh-id check and the listing theorem's equation"},
                        family_filter=lambda f: f.startswith(("outbox:", "send:", "seq:", "deliver:", "shape:outbox:", "again:two-hosts", "again:two-outboxes")),
                        run_specs=[("shape", SHAPE[ctx.tier]), ("seq", ["-families", "seq", "-n", n, "-faults", "none", "-maxruns", "6000"]), ("again", AGAIN[ctx.tier]), ("std", PUB_STD[ctx.tier])])


def replay_C05(ctx):
    return check_C05(ctx)


def check_C16(ctx):
    def classify(name, fields, run):
        return ("C16:%s:%s" % (run["family"], fields[1][:48]), "%s (faults %s): %s" % (run["family"], run["faults"], fields[1]))
    return pub_property(ctx, "C16", "Properties/C16.v",
                        ["Pub/EffectSpec.v (update_merge / to_tombstone / add_spec / remove_spec / like_spec), Pub/Soc.v (update, delete, add_cb, remove_cb, like, block), Pub/Util.v (add, remove), Pub/Monitors.v eff_step",
                         "modelled, not verified: streams.ToType on the merged member map (decoding; C01) is the model's to_type; time formatting (C20)"],
                        {"monitors": ["effects_bad", "targets_bad"], "classify": classify,
                         "rule": "stored objects against random partial updates with overlapping / disjoint / null members; 1..3 objects and targets per Add/Remove (owned, not owned, ordered, unordered, duplicates); Like and Block with 1..3 objects; object / target absent; every single fault; each Database.Update of the real run compared with the effect function applied to what the real Get returned"},
                        family_filter=lambda f: f.startswith(("outbox:", "send:", "effects:", "shape:outbox:", "overrides:outbox:")),
                        run_specs=[("shape", SHAPE[ctx.tier]), ("overrides", OVERRIDES), ("effects", ["-families", "effects", "-n", "10" if ctx.tier == "quick" else "150", "-faults", "single", "-maxruns", "20000", "-shards", "8"]), ("std", PUB_STD[ctx.tier])])


def replay_C16(ctx):
    return check_C16(ctx)


def diverge_classify(pid):
    def classify(name, fields, run):
        fam = run["family"]
        return ("%s:%s:%s" % (pid, fam, fields[1][:60]), "%s (faults %s): %s" % (fam, run["faults"], fields[1]))
    return classify


def check_C04(ctx):
    base = diverge_classify("C04")
    def classify(name, fields, run):
        if name == "diverge_bad" and not run["family"].startswith(("inbox:", "shape:inbox:", "overrides:inbox:")):
            return (None, None)
        return base(name, fields, run)
    return pub_property(ctx, "C04", "Properties/C04.v",
                        ["Pub/Fed.v (every default callback, post_inbox), Pub/Util.v add / remove, Pub/EffectSpec.v, Pub/Monitors.v own_step / eff_step",
                         "the judge 'diverge' reports a run on which the implementation's stored values, deliveries, callbacks or response differ from the model's, whose effects the theorems characterise",
                         "modelled, not verified: the fetch of an object given by IRI is the recorded Transport.Dereference answer decoded by the model's to_type"],
                        {"monitors": ["fed_bad", "diverge_bad", "targets_bad"], "classify": classify,
                         "rule": "each handled activity type with 1..3 objects / targets / actors as IRIs or embedded values, owned or not, ordered / unordered collections, absent or present likes / shares, OnFollow in {nothing, accept, reject}, no / wrapped / overriding application callback; every single fault; own_step / eff_step / quiet predicates evaluated on the callback segment of each real trace"},
                        family_filter=lambda f: f.startswith(("inbox:", "shape:inbox:", "overrides:inbox:")),
                        run_specs=[("shape", SHAPE[ctx.tier]), ("overrides", OVERRIDES), ("fedfocus", ["-families", "fedfocus", "-n", "10" if ctx.tier == "quick" else "200", "-faults", "none", "-maxruns", "20000"]),
                                   ("focusfaults", FOCUS_FAULTS[ctx.tier]), ("std", PUB_STD[ctx.tier])])


def replay_C04(ctx):
    return check_C04(ctx)


def c06_urls(ctx):
    """net/url against the model's has_scheme / host_of on generated and malformed strings (the origin check compares hosts)."""
    udir = os.path.join(ctx.rundir, "urls")
    os.makedirs(udir, exist_ok=True)
    b = os.path.join(ROOT, "tools", "bin", "harness")
    rc, out, dt = sh([b, "urls", "-out", udir, "-seed", str(ctx.seed), "-tier", ctx.tier], timeout=600)
    if rc != 0:
        ctx.coverage["url_model"] = {"ran": False, "why": out[-300:]}
        return False
    shutil.copyfile(os.path.join(ROOT, "coq", "Run", "UrlCases.v"), os.path.join(udir, "cases.v"))
    base = ["coqc", "-Q", os.path.join(ROOT, "coq"), "Verif", "-Q", udir, "Run"]
    rc1, out1, _ = sh(base + ["observed_urls.v"], cwd=udir, timeout=900)
    rc2, out2, _ = sh(base + ["cases.v"], cwd=udir, timeout=900) if rc1 == 0 else (1, out1, 0)
    if rc2 != 0:
        ctx.violation("C06:url-eval", "the comparison of net/url with the model could not be evaluated", {"kind": "cases-eval", "output": (out1 + out2)[-2000:], "unchecked": "correspondence C06 urls"}, nofail=True)
        return False
    defs = parse_defs(out2)
    bad = re.findall(r'\("((?:[^"]|"")*)", "(\w+)"\)', defs.get("url_bad", ""))
    n = int(re.sub(r"\D", "", defs.get("n_urls", "0").split(":")[0]) or 0)
    ctx.coverage["url_model"] = {"ran": True, "strings": n, "disagreements": len(bad), "examples": bad[:5]}
    if bad:
        s0, what = bad[0]
        ctx.violation("C06:url-model:%s" % what, "net/url and the model's reading of IRIs (has_scheme / host_of) disagree on %r (%s): the origin check of the model is not the code's there" % (s0, what),
                      {"kind": "correspondence", "projection": "C06 net/url vs has_scheme / host_of", "string": s0, "what": what, "count": len(bad)}, nofail=True)
    return False


def check_C06(ctx):
    base = diverge_classify("C06")
    def classify(name, fields, run):
        if name == "diverge_bad" and not run["family"].startswith(("inbox:Update", "inbox:Delete", "inbox:Accept", "inbox:Undo", "authority:", "shape:inbox:Update", "shape:inbox:Delete", "shape:inbox:Accept", "shape:inbox:Undo")):
            return (None, None)
        return base(name, fields, run)
    return pub_property(ctx, "C06", "Properties/C06.v",
                        ["Pub/Util.v must_origin_match / must_actors_match / host_of, Pub/SideEffect.v authorize_post_inbox / actor_iris, Pub/Fed.v update / delete / accept / undo, Pub/Monitors.v acc_step / seen_step",
                         "modelled, not verified: url.Parse's verdict and host extraction are the model's has_scheme / host_of (scheme syntax, percent escapes, control characters, blanks in the authority; authority without userinfo, compared as written), tied by a direct comparison with net/url on generated and malformed strings (harness urls) and by replay on hosts differing in port, case and sub-domain"],
                        {"monitors": ["authority_bad", "diverge_bad"], "classify": classify, "extra": c06_urls,
                         "rule": "hosts equal / different / differing in port, case or sub-domain for the activity id and 1..3 object ids as IRIs or embedded; Accept with the stored Follow present, absent, of another type, by another actor, lacking the accepting actor, embedded or by IRI; Undo with equal / subset / superset / disjoint actor sets; 1..3 actors as IRI or embedded, blocked or not; single faults"},
                        family_filter=lambda f: f.startswith(("inbox:", "authority:", "shape:inbox:")),
                        run_specs=[("shape", SHAPE[ctx.tier]), ("authority", ["-families", "authority", "-n", "12" if ctx.tier == "quick" else "200", "-faults", "none", "-maxruns", "20000"]), ("std", PUB_STD[ctx.tier])])


def replay_C06(ctx):
    return check_C06(ctx)


def check_C17(ctx):
    base = diverge_classify("C17")
    def classify(name, fields, run):
        if name == "diverge_bad":
            # only where the forwarding part is concerned: a delivery or the filter callback
            if not ("BatchDeliver" in fields[1] or "FilterForwarding" in fields[1] or "MaxInboxForwarding" in fields[1]):
                return (None, None)
        if name == "forward_bad" and fields[1].startswith("member ids handed"):
            return ("C17:forward-member-ids", fields[1])
        return base(name, fields, run)
    return pub_property(ctx, "C17", "Properties/C17.v",
                        ["Pub/SideEffect.v inbox_forwarding / my_iris / load_collections / has_forwarding_values / forwarding_recipients, Pub/Monitors.v fwd_step",
                         "Pub/ForwardSpec.v (must_forward as a function of the world: owned ids, stored values, dereferenceable documents, seen, depth) with C17_iff / C17_search: both directions for every world; judge iff_bad evaluates must_forward on the world each recorded fault-free run started from and compares with what the implementation did",
                         "modelled, not verified: the harness's in-memory Database / Transport is the world the specification is evaluated on"],
                        {"monitors": ["forward_bad", "iff_bad", "sequence_bad", "diverge_bad"], "classify": classify,
                         "rule": "activities whose to/cc/audience mix owned collections, foreign collections, owned non-collections and actors; reply chains of depth 0..5 through embedded values and dereferenced IRIs with ownership at a random level; depth limit 1..4; filters all / first / none; each activity delivered 1..3 times to one or two local inboxes against one evolving world; plus every standard inbox scenario with single faults"},
                        family_filter=lambda f: f.startswith(("inbox:", "forward:")),
                        run_specs=[("forward", ["-families", "forward", "-n", "60" if ctx.tier == "quick" else "1500", "-faults", "none", "-maxruns", "40000"]), ("std", PUB_STD[ctx.tier])])


def replay_C17(ctx):
    return check_C17(ctx)


def check_C08(ctx):
    pr = proof_stage(ctx, "Properties/C08.v")
    cov_from_proof(ctx, pr, ["Conc/Model.v (threads of critical sections at lock / read / write / unlock granularity), Pub/*.v for the per-thread replay",
                             "modelled, not verified: that each collection update of package pub is one critical section of the Conc model rests on the C09 / C05 / C04 / C16 / C17 theorems about the sequential model programs (bracketing by the id's lock; value written = id put at the front of the value read) and is exercised, not proved, for interleavings; the Go scheduler is replaced by a deterministic cooperative one switching only at Database / Transport / callback calls"])
    okb, outb = harness_build(ctx)
    tpl = open(os.path.join(ROOT, "coq", "Run", "ConcCases.v")).read()
    mods = sorted(set(m.replace(".", "/") + ".vo" for l in re.findall(r"^From Verif Require Import ([^\n]*?)\.$", tpl, re.M) for m in l.split()))
    okm, outm, _ = coq_make(ctx, ["Pub/Replay.vo", "Pub/Monitors.vo"] + mods)
    found = False
    if not okb or not okm:
        ctx.violation("C08:build", "the concurrency run could not be built", {"kind": "build", "output": (outb if not okb else outm)[-3000:], "unchecked": "correspondence C08"}, nofail=True)
        return finish(ctx, "proof")
    args = ["c08", "-sets", "1" if ctx.tier == "quick" else "3", "-bound", "2", "-cap", "150" if ctx.tier == "quick" else "1500", "-random", "20" if ctx.tier == "quick" else "200", "-shards", "2"]
    key = tree_key(("c08", args, ctx.seed))
    cdir = os.path.join(ROOT, "run", "pubcache", key)
    res_path = os.path.join(cdir, "result.json")
    if os.path.exists(res_path):
        res = json.load(open(res_path))
        ctx.note("c08 run: cached (%s)" % key)
    else:
        os.makedirs(cdir, exist_ok=True)
        b = os.path.join(ROOT, "tools", "bin", "harness")
        rc, out, dt = sh([b] + args + ["-out", cdir, "-seed", str(ctx.seed), "-tier", ctx.tier], timeout=3000)
        ctx.note("harness c08 rc=%d (%.1fs) %s" % (rc, dt, out.strip()[-80:]))
        if rc != 0:
            ctx.violation("C08:harness-run", "the scheduler run failed", {"kind": "harness-run", "output": out[-3000:], "unchecked": "correspondence C08"}, nofail=True)
            return finish(ctx, "proof")
        t0 = time.time()
        units = sorted((d for d in glob.glob(os.path.join(cdir, "shard_*")) if os.path.isdir(d)), key=lambda d: int(d.rsplit("_", 1)[1]))
        def eval_unit(d):
            shutil.copyfile(os.path.join(ROOT, "coq", "Run", "ConcCases.v"), os.path.join(d, "cases.v"))
            base = "coqc -Q %s Verif -Q %s Run " % (os.path.join(ROOT, "coq"), d)
            prc = subprocess.run("%sobserved.v && %scases.v" % (base, base), shell=True, cwd=d, stdout=subprocess.PIPE, stderr=subprocess.STDOUT)
            return (prc.returncode, prc.stdout.decode("utf-8", "replace"))
        from concurrent.futures import ThreadPoolExecutor
        with ThreadPoolExecutor(max_workers=16 if ctx.tier == "quick" else 8) as ex:   # a thorough request set needs 1-2 GB to evaluate
            outs = list(ex.map(eval_unit, units))
        rc2 = max([rc for rc, _ in outs] or [1])
        ctx.note("coqc replay+judge (%d request sets in parallel) rc=%d (%.1fs)" % (len(units), rc2, time.time() - t0))
        if rc2 != 0:
            ctx.violation("C08:cases-eval", "the Coq evaluation of the schedules failed", {"kind": "cases-eval", "output": "\n".join(o for rc, o in outs if rc != 0)[-3000:], "unchecked": "correspondence C08"}, nofail=True)
            return finish(ctx, "proof")
        conc_bad, replay_bad, nobs = [], [], 0
        for d, (_, o) in zip(units, outs):
            off = json.load(open(os.path.join(d, "index.json")))
            dd = parse_defs(o)
            conc_bad += [(i + off["case_offset"], f) for (i, f) in parse_idx_tuples(dd.get("conc_bad", ""))]
            replay_bad += [(i + off["run_offset"], f) for (i, f) in parse_idx_tuples(dd.get("replay_bad", ""))]
            nobs += int(re.sub(r"\D", "", dd.get("n_observed", "0").split(":")[0]) or 0)
            for fn in ("observed.vo", "observed.glob", "cases.vo", "cases.glob"):
                try:
                    os.remove(os.path.join(d, fn))
                except OSError:
                    pass
        summ = json.load(open(os.path.join(cdir, "summary.json")))
        res = {"conc_bad": conc_bad, "replay_bad": replay_bad, "n_observed": nobs,
               "summary": {k: summ[k] for k in ("evaluations", "distinct_nontrivial", "rule", "distribution")}, "cases": summ["extra"]["cases"]}
        json.dump(res, open(res_path, "w"))
        for fn in ("observed.vo", "observed.glob", "cases.vo", "cases.glob"):
            try:
                os.remove(os.path.join(cdir, fn))
            except OSError:
                pass
    cases = res["cases"]
    ctx.coverage.update({"evaluations": len(cases), "distinct_nontrivial": len(set(json.dumps(c["schedule"]) + str(c["set"]) for c in cases)),
                         "rule": res["summary"]["rule"], "input_distribution": res["summary"]["distribution"], "samples": cases[:1],
                         "traces_validated_against_impl": res["n_observed"] - len(res["replay_bad"]),
                         "disagreements": {"replay_total": len(res["replay_bad"]), "judge_flags": len(res["conc_bad"])}})
    for (i, fields) in res["conc_bad"]:
        c = cases[i]
        sig = "C08:%s:%s" % ("deadlock" if "deadlock" in fields[1] else "store" if "collection" in fields[1] else "lock" if "unlocks a lock" in fields[1] else "dup", c["kind"])
        if ctx.violation(sig, "%s requests, schedule of %d choices: %s" % (c["kind"], len(c["schedule"]), fields[1]), {"kind": "schedule", "case": c, "detail": fields}):
            found = True
    if res["replay_bad"] and not found:
        i, f = res["replay_bad"][0]
        ctx.violation("C08:replay-drift", "a thread's trace under the scheduler is not a run of the model of package pub", {"kind": "correspondence", "projection": "per-thread replay", "thread_run_index": i, "detail": f, "count": len(res["replay_bad"])}, nofail=True)
    if not pr["built"] and not found:
        ctx.violation("C08:proof:%s" % pr.get("broken_lemma"), "theorem no longer checks", {"kind": "proof", "file": pr.get("broken_file"), "theorem": pr.get("broken_lemma"), "error": (pr.get("error") or pr.get("out", ""))[-3000:]}, nofail=True)
    return finish(ctx, "proof")


def replay_C08(ctx):
    return check_C08(ctx)


def check_C19(ctx):
    def interpret(ctx, defs, summ):
        found = False
        bad = re.sub(r"\s+", " ", defs.get("c19_bad", ""))
        items = re.findall(r'\((\d+), \[([^\]]*)\]\)', bad)
        nobs = int(re.sub(r"\D", "", defs.get("n_observed", "0").split(":")[0]) or 0)
        ctx.coverage["traces_validated_against_impl"] = nobs - len(items)
        ctx.coverage["disagreements"] = {"observation_vs_model": len(items)}
        for (i, msgs) in items[:10]:
            first = re.findall(r'"([^"]*)"', msgs)
            what = first[0] if first else "?"
            found = True
            ctx.violation("C19:%s" % what.split(":")[0][:40], "the real transport differs from the model, whose runs the theorems characterise: %s" % what,
                          {"kind": "observation", "index": i, "complaints": first, "see": "observation %d in run/C19/observed.v (inputs: script, recipients, payload; outputs: signer calls, client requests, result)" % int(i)})
        # the race detector: several batches and dereferences on one transport value
        renv = dict(GOENV)
        renv["CGO_ENABLED"] = "1"
        rc, out, dt = sh(["go", "build", "-race", "-o", "../bin/harness-race", "."], cwd=os.path.join(ROOT, "tools", "harness"), timeout=900, env=renv)
        if rc == 0:
            rdir = os.path.join(ctx.rundir, "race")
            os.makedirs(rdir, exist_ok=True)
            rc2, out2, dt2 = sh([os.path.join(ROOT, "tools", "bin", "harness-race"), "c19", "-out", rdir, "-seed", str(ctx.seed), "-tier", "quick"], timeout=1800)
            ctx.note("race-detector run rc=%d (%.1fs)" % (rc2, dt2))
            ctx.coverage["race_detector"] = {"ran": True, "data_race_reports": out2.count("WARNING: DATA RACE")}
            if "WARNING: DATA RACE" in out2 or rc2 != 0:
                found = True
                ctx.violation("C19:data-race", "the race detector reports a data race in the transport (or the run failed under it)", {"kind": "race", "output": out2[-4000:]})
        else:
            ctx.coverage["race_detector"] = {"ran": False, "why": out[-300:]}
        return found
    return generic_table_check(ctx, "C19", "Properties/C19.v", ["c19"], "C19Cases.v",
                               ["Transport/Model.vo", "Transport/Check.vo"],
                               ["Transport/Model.v (Dereference, Deliver, BatchDeliver over clock / signer / client events), Transport/Check.v (scripted environment and comparison)",
                                "modelled, not verified: goroutines, WaitGroup, channel and the two mutexes of BatchDeliver are modelled as one Deliver per recipient finishing in any order (theorem C19_batch_order); freedom from data races is a property of the Go runtime execution and is only exercised with the race detector; net/http's treatment of the request after Do, and the cryptography of httpsig (exercised with real RSA / HMAC signers and the httpsig verifier)"],
                               interpret)


def replay_C19(ctx):
    return check_C19(ctx)


def check_C11(ctx):
    pr = proof_stage(ctx, "Properties/C11.v")
    cov_from_proof(ctx, pr, ["Pub/*.v (every function of the model; `Panic site` results mark nil dereferences of the Go code), Proofs/TotalProofs.v",
                             "modelled, not verified: the generated decoders of package streams (streams.ToType and the value deserialisers) are only exercised by the hostile-input harness; their totality is not a theorem here (C01 / C12 model parts of them); that the model's Panic sites are all the places where the Go code can dereference nil is tied by replay (a real panic is a result the model never produces) and by the hostile-input runs",
                             "termination: the model programs are structurally recursive Gallina functions with the configured depths as fuel; a Go-level hang is caught only by the watchdog of the harness"])
    found = False
    okb, outb = harness_build(ctx)
    if not okb:
        ctx.violation("C11:harness-build", "harness does not build against the tree", {"kind": "build", "output": outb[-3000:], "unchecked": "correspondence C11"}, nofail=True)
        return finish(ctx, "proof")
    rc, out, summ = harness_run(ctx, ["c11"], timeout=6000)
    cov_from_summary(ctx, summ)
    if rc != 0 or summ is None:
        cur = os.path.join(ctx.rundir, "current.json")
        if os.path.exists(cur) and ("fatal error" in out or "stack overflow" in out or "goroutine stack exceeds" in out):
            try:
                inp = json.load(open(cur))
            except Exception:
                inp = None
            ctx.violation("C11:fatal:%s" % ((inp or {}).get("family", "?")), "the Go runtime died (fatal error / stack overflow: unbounded recursion) while handling this input",
                          {"kind": "fatal", "input": inp, "output": out[-2500:]})
        else:
            ctx.violation("C11:harness-run", "the hostile-input harness failed", {"kind": "harness", "output": out[-3000:], "unchecked": "correspondence C11"}, nofail=True)
        return finish(ctx, "proof")
    for v in summ.get("violations", []):
        if ctx.violation(v["signature"], v["what"], {"kind": "direct", "replay": v["replay"]}):
            found = True
    # the standard replayed run: a real panic is a result the model (by the theorems) never has
    r1 = pub_run(ctx, "std", PUB_STD[ctx.tier])
    if "error" in r1:
        ctx.violation("C11:%s" % r1["error"], "the correspondence run could not be performed", {"kind": r1["error"], "output": r1.get("out", "")[-3000:], "unchecked": "correspondence C11"}, nofail=True)
        return finish(ctx, "proof")
    runs = r1["runs"]
    npanic = 0
    for i, r in enumerate(runs):
        if r["result"] == "panic":
            npanic += 1
            if ctx.violation("C11:panic:%s:%s" % (r["family"], (r.get("panic") or "")[:60]), "%s (faults %s) panics: %s" % (r["family"], r["faults"], r.get("panic")), {"kind": "run", "index": i, "run": r}):
                found = True
    bad = [(i, f) for (i, f) in r1["defs"].get("replay_bad", []) if f[0] == "1"]
    ctx.coverage["traces_validated_against_impl"] = len(runs) - len(r1["defs"].get("replay_bad", []))
    ctx.coverage["disagreements"] = {"panics_in_replayed_runs": npanic, "result_disagreements": len(bad), "hostile_runs": summ.get("evaluations", 0)}
    if bad and not found:
        i, f = bad[0]
        ctx.violation("C11:replay-drift", "the result of a recorded run differs from the model's", {"kind": "correspondence", "projection": "C11 results", "index": i, "detail": f, "run": runs[i]}, nofail=True)
    if not pr["built"] and not found:
        ctx.violation("C11:proof:%s" % pr.get("broken_lemma"), "theorem no longer checks", {"kind": "proof", "file": pr.get("broken_file"), "theorem": pr.get("broken_lemma"), "error": (pr.get("error") or pr.get("out", ""))[-3000:]}, nofail=True)
    return finish(ctx, "proof")


def replay_C11(ctx):
    return check_C11(ctx)


def check_C01(ctx):
    def interpret(ctx, defs, summ):
        found = False
        bad = re.sub(r"\s+", " ", defs.get("c01_bad", ""))
        items = re.findall(r'\((\d+)(?:%nat)?, \[([^\]]*)\]\)', bad)
        nobs = int(re.sub(r"\D", "", defs.get("n_observed", "0").split(":")[0].replace("%nat", "")) or 0)
        cases = (summ.get("extra") or {}).get("cases", [])
        model_bad = [(i, m) for (i, m) in items if "model:" in m]
        ctx.coverage["traces_validated_against_impl"] = nobs - len(model_bad)
        ctx.coverage["disagreements"] = {"document_vs_model": len(model_bad), "property_flags": len(items) - len(model_bad)}
        for (i, msgs) in items:
            i = int(i)
            for what in re.findall(r'"([^"]*)"', msgs):
                if what.startswith("model:"):
                    continue
                c = cases[i] if i < len(cases) else {}
                doc = c.get("document") or {}
                if what.startswith("dropped: member ") and what.endswith("Map") and what[len("dropped: member "):-3] in doc:
                    sig = "C01:dropped:both-spellings"
                elif what.startswith("idempotence") and any(isinstance(v, dict) and "@context" in v and not isinstance(v["@context"], str) and
                                                            all(isinstance(x, str) for k, x in v.items() if k != "@context") for k, v in doc.items() if k != "@context"):
                    sig = "C01:idempotence:context-in-language-map"
                else:
                    sig = "C01:%s:%s" % (what.split(":")[0], c.get("type"))
                if ctx.violation(sig, "%s (type %s)" % (what, c.get("type")), {"kind": "document", "index": i, "case": c}):
                    found = True
        if model_bad and not found:
            i = int(model_bad[0][0])
            ctx.violation("C01:model-drift", "the codec model over the translator's tables disagrees with the running code",
                          {"kind": "correspondence", "projection": "C01 document round trips", "index": i, "case": cases[i] if i < len(cases) else None, "count": len(model_bad)}, nofail=True)
        return found
    return generic_table_check(ctx, "C01", "Properties/C01.v", ["c01", "-shards", "8"], "C01Cases.v",
                               ["Streams/CodecInst.vo", "Gen/TablesShipped.vo"],
                               ["Streams/Codec.v (decode + encode as one pass, over the translator's tables), Streams/CodecInst.v (literal codecs as serialise (deserialise x)), Streams/Literals.v (dateTime, duration parsers)",
                                "the rebuilt @context: cx_doc (Streams/Codec.v) gives the vocabularies a document uses - its type's, those of every property holding something, those of the values decoded as embedded types - and is compared with the @context of every real output; modelled, not verified: @context aliases (plain contexts only); net/url parsing and URL.String() (url_ok is a conservative character test, norm_iri the identity: the generator stays inside); float formatting (integers only); the literal codecs are Section parameters of the theorems: what `lexical` demands of them is checked for the shipped instance on the generated scalars by the correspondence, not proved for all strings",
                                "partial: idempotence of the round trip is judged on the real code for every generated document, not proved for the model"],
                               interpret)


def replay_C01(ctx):
    return check_C01(ctx)


def check_C15(ctx):
    pr = proof_stage(ctx, "Properties/C15.v")
    cov_from_proof(ctx, pr, ["Astool/Order.v (sorted emission is independent of map iteration order), and per extension the unchanged Proofs/{Spec,Hier,Resolver,Table,Literal,Container,Slot}Proofs.v and Properties/C1{2,3,4,8}.v compiled against the tables the translator reads out of the code astool emitted for that extension",
                             "not decided by proof: astool itself (RDF parsing, conversion, jennifer code generation) has no Gallina model; byte-identical output over repeated runs and equality of syntax trees with the shipped package are established by executing astool in fresh processes",
                             "trusted: go build for 'compiles'; the translator's shape checks tie the extension's generated code to its tables"])
    found = False
    run_translators(ctx)
    keep = os.path.join(ctx.rundir, "failing")
    rc, out, dt = sh(["python3", os.path.join(ROOT, "tools", "c15", "run.py"), ctx.tier, str(ctx.seed), keep], timeout=12000)
    ctx.note("c15 runner rc=%d (%.1fs)" % (rc, dt))
    try:
        res = json.loads(out.strip().splitlines()[-1])
    except Exception:
        ctx.violation("C15:runner", "the C15 runner failed", {"kind": "runner", "output": out[-3000:], "unchecked": "correspondence C15"}, nofail=True)
        return finish(ctx, "proof")
    ctx.coverage.update({"evaluations": res.get("runs", 0), "distinct_nontrivial": len(res.get("extensions", [])),
                         "rule": "astool on the four shipped vocabularies in %s fresh processes (byte-identical outputs, file set and syntax trees equal to /repo/streams); random extension vocabularies (1..6 types with one or two parents among ActivityStreams and own types, 1..8 properties with random domains, ranges mixing types and literal kinds, functional or not, natural-language or not, withheld lists): astool, go build, translator, table theorems re-checked by coqc" % res.get("shipped_runs"),
                         "input_distribution": {"extensions": res.get("extensions"), "regeneration": res.get("regeneration"), "files_generated": res.get("files_generated")},
                         "samples": res.get("extensions", [])[:1],
                         "traces_validated_against_impl": sum(1 for e in res.get("extensions", []) if e.get("theorems_rechecked")),
                         "disagreements": {"violations": len(res.get("violations", []))}})
    for v in res.get("violations", []):
        if ctx.violation(v["sig"], v["what"], {"kind": "astool", "detail": v.get("detail"), "ontology": v.get("ontology"), "seed": v.get("seed")}, nofail=bool(v.get("nofail"))):
            found = True
    if not pr["built"] and not found:
        ctx.violation("C15:proof:%s" % pr.get("broken_lemma"), "theorem no longer checks", {"kind": "proof", "file": pr.get("broken_file"), "theorem": pr.get("broken_lemma"), "error": (pr.get("error") or pr.get("out", ""))[-3000:]}, nofail=True)
    return finish(ctx, "proof")


def replay_C15(ctx):
    return check_C15(ctx)


def check_C03(ctx):
    def classify(name, fields, run):
        return ("C03:%s:%s" % (run["family"].split(":")[0], "payload" if "payload" in fields[1] else ("not-reached" if "not resolved" in fields[1] else "body")), "%s (faults %s): %s" % (run["family"], run["faults"], fields[1]))
    n = "60" if ctx.tier == "quick" else "600"
    return pub_property(ctx, "C03", "Properties/C03.v",
                        ["Pub/Util.v strip_hidden / clear_sensitive / no_hidden, Pub/Calls.v streams_serialize, Pub/SideEffect.v deliver",
                         "partial: that the activity reaching Deliver has no bare nested array among its object elements (flat) is shown for the generated scenarios by the replay, not proved through wrapInCreate / AddNewIDs / normalisation; members named bto/bcc on values whose type lacks these properties (Link family, unknown types) are extension members outside the statement"],
                        {"monitors": ["hidden_bad", "reached_bad"], "classify": classify,
                         "rule": "all outbox/Send scenarios (every activity type, bare objects, 1..3 embedded objects with any mixture of the five addressing properties as IRIs or embedded actors, Social only / both), automatic Accept/Reject, served values with bto/bcc at object depth 0..2; single faults"},
                        run_specs=[("hidden", ["-families", "hidden", "-n", "42" if ctx.tier == "quick" else "420", "-faults", "single", "-maxruns", "6000", "-shards", "4"]),
                                   ("std", PUB_STD[ctx.tier]), ("get", ["-families", "get,gettypes", "-n", n, "-faults", "single", "-maxruns", "6000", "-shards", "4"])])


def replay_C03(ctx):
    return check_C03(ctx)
