#!/bin/sh
# usage: evalshards.sh <rundir>
cd $1
for d in shard_*; do (cd $d && cp ${COQDIR:-/verif/coq}/Run/PubMonitorCases.v cases.v && coqc -Q ${COQDIR:-/verif/coq} Verif -Q . Run observed.v && coqc -Q ${COQDIR:-/verif/coq} Verif -Q . Run cases.v > out.txt 2>&1) & done
wait
python3 - $1 <<'P'
import re,json,glob,sys
sys.path.insert(0,'/verif/tools')
d0=sys.argv[1]
summ=json.load(open(d0+'/summary.json'))
runs=summ['extra']['runs']
from props import parse_idx_tuples
from checklib import parse_defs
tot={}
for d in sorted(glob.glob(d0+'/shard_*')):
    idx=json.load(open(d+'/index.json'))
    o=open(d+'/out.txt').read()
    if 'Error' in o: print(d, o[-500:])
    defs=parse_defs(o)
    for k,v in defs.items():
        if k.endswith('_bad'):
            for i,f in parse_idx_tuples(v):
                tot.setdefault(k,[]).append((idx[i],f))
for k,v in tot.items():
    if k=='forward_bad': continue
    print(k,len(v))
    for i,f in sorted(v)[:60]:
        r=runs[i]; print('   ',i,r['family'],r.get('note'),r['result'],r['statuses'],f[:4])
P
