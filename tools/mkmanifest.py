#!/usr/bin/env python3
"""Writes MANIFEST.json from the table below (kept in one place so that it stays valid)."""
import json, os
ROOT = os.path.dirname(os.path.dirname(os.path.abspath(__file__)))
props = [json.loads(l) for l in open(os.path.join(ROOT, "properties.jsonl"))]
CLAIMED = json.load(open(os.path.join(ROOT, "tools", "claims.json")))
checks, na = [], []
for p in props:
    pid = p["id"]
    c = CLAIMED.get(pid)
    if not c or c.get("not_applicable"):
        na.append({"property_id": pid, "reason": (c or {}).get("reason", "check not built yet in this round; see DESIGN.md section 5 for the plan")})
        continue
    checks.append({
        "property_id": pid,
        "quick_cmd": "./check %s --tier quick" % pid,
        "thorough_cmd": "./check %s --tier thorough" % pid,
        "evidence_file": "/verif/evidence/%s.json" % pid,
        "replay_cmd_template": "./check %s --replay {path}" % pid,
        "engine": "coq-model+correspondence",
        "level_claimed": {"category": c.get("category", "proof"), "text": c["text"], "design_ref": c.get("design_ref", "DESIGN.md section 5, " + pid)},
        "level_note": c["note"],
        "technique": c["technique"],
    })
m = {
    "version": 1,
    "setup_cmd": "./setup.sh",
    "hooks": {"guard": "verif", "enable": "no hooks were needed: the harness (built with -tags verif) links the unchanged packages of /repo through a go.mod replace; the tag is reserved", "baseline_off_cmd": "cd /repo && go test -vet=off -count=1 ./...", "source_commits": json.load(open(os.path.join(ROOT, "tools", "hook_commits.json"))), "add_only": True},
    "engines": [{"name": "coq-model+correspondence", "path": "/verif/check", "serves_properties": [c["property_id"] for c in checks],
                 "kind_free_text": "Coq 8.16 theorems over an executable Gallina model; model regenerated from /repo by a go/ast translator (generated code, literal tables) or tied to /repo by a Go correspondence harness whose observations are judged inside Coq (vm_compute)"}],
    "checks": checks,
    "not_applicable": na,
    "notes": "See DESIGN.md. KNOWN_FINDINGS.txt lists recorded genuine defects; seeded/ holds confirmed breaking changes used to test detection.",
}
json.dump(m, open(os.path.join(ROOT, "MANIFEST.json"), "w"), indent=1)
print("MANIFEST: %d checks, %d not_applicable" % (len(checks), len(na)))
