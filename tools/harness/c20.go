package main

// C20, concurrent service: many GETs served at once by one ActivityStreams handler value; every response's Digest header must
// be the SHA-256 of exactly the bytes written for that response.  (Meaningful under the race detector as well.)

import (
	"context"
	"crypto/sha256"
	"encoding/base64"
	"fmt"
	"net/http"
	"net/http/httptest"
	"net/url"
	"strings"
	"sync"
	"time"

	"github.com/go-fed/activity/pub"
	"github.com/go-fed/activity/streams"
	"github.com/go-fed/activity/streams/vocab"
)

type c20DB struct {
	pub.Database
	mu   sync.Mutex
	docs map[string]map[string]interface{}
}

func (d *c20DB) Lock(c context.Context, id *url.URL) error   { return nil }
func (d *c20DB) Unlock(c context.Context, id *url.URL) error { return nil }
func (d *c20DB) Get(c context.Context, id *url.URL) (vocab.Type, error) {
	d.mu.Lock()
	m := d.docs[id.String()]
	d.mu.Unlock()
	if m == nil {
		return nil, fmt.Errorf("not found")
	}
	return streams.ToType(c, m)
}

type c20Clock struct{}

func (c20Clock) Now() time.Time { return time.Unix(1600000000, 0) }

func runC20() {
	s := &Summary{Rule: "one ActivityStreams handler value serving stored values of very different sizes to 16 goroutines at once; each response's Digest recomputed over the bytes written", Dist: map[string]interface{}{}}
	db := &c20DB{docs: map[string]map[string]interface{}{}}
	n := 24
	for i := 0; i < n; i++ {
		id := fmt.Sprintf("https://%s/notes/c20-%d", host, i)
		db.docs[id] = map[string]interface{}{"@context": "https://www.w3.org/ns/activitystreams", "type": "Note", "id": id,
			"content": strings.Repeat(fmt.Sprintf("content of note %d; ", i), 1+i*400)}
	}
	h := pub.NewActivityStreamsHandler(db, c20Clock{})
	workers, per := 16, 120
	if *tier != "quick" {
		per = 1500
	}
	var mu sync.Mutex
	var violations []Violation
	total, bad, panics := 0, 0, 0
	var wg sync.WaitGroup
	for wk := 0; wk < workers; wk++ {
		wg.Add(1)
		go func(wk int) {
			defer wg.Done()
			for j := 0; j < per; j++ {
				id := fmt.Sprintf("https://%s/notes/c20-%d", host, (wk*7+j)%n)
				func() {
					defer func() {
						if p := recover(); p != nil {
							mu.Lock()
							panics++
							if panics == 1 {
								violations = append(violations, Violation{What: "the handler panics while other requests are being served: " + firstLine(fmt.Sprint(p)), Sig: "C20:concurrent:panic", Replay: map[string]interface{}{"id": id, "workers": workers}})
							}
							mu.Unlock()
						}
					}()
					rq := httptest.NewRequest("GET", id, nil)
					rq.Header.Set("Accept", apContentType)
					rw := httptest.NewRecorder()
					handled, err := h(context.Background(), rw, rq)
					sum := sha256.Sum256(rw.Body.Bytes())
					want := "SHA-256=" + base64.StdEncoding.EncodeToString(sum[:])
					mu.Lock()
					total++
					if !handled || err != nil || rw.Code != http.StatusOK || rw.Header().Get("Digest") != want {
						bad++
						if bad == 1 {
							violations = append(violations, Violation{What: "a response served concurrently carries a Digest that is not the SHA-256 of its body (or was not served)", Sig: "C20:concurrent:digest",
								Replay: map[string]interface{}{"id": id, "workers": workers, "digest_header": rw.Header().Get("Digest"), "sha256_of_body": want, "status": rw.Code, "handled": handled, "error": fmt.Sprint(err), "body_bytes": rw.Body.Len()}})
						}
					}
					mu.Unlock()
				}()
			}
		}(wk)
	}
	wg.Wait()
	s.Evaluations = total
	s.Distinct = n
	s.Dist["responses"] = total
	s.Dist["digest_mismatches"] = bad
	s.Dist["panics"] = panics
	s.Violations = violations
	writeSummary(s)
	fmt.Printf("c20: %d concurrent responses, %d digest mismatches, %d panics\n", total, bad, panics)
}
