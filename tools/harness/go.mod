module verif/harness

go 1.23

require github.com/go-fed/activity v0.0.0

replace github.com/go-fed/activity => /repo
