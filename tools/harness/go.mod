module verif/harness

go 1.23

require (
	github.com/go-fed/activity v0.0.0
	github.com/go-fed/httpsig v0.1.1-0.20190914113940-c2de3672e5b5
)

require (
	golang.org/x/crypto v0.0.0-20180527072434-ab813273cd59 // indirect
	golang.org/x/sys v0.0.0-20180525142821-c11f84a56e43 // indirect
)

replace github.com/go-fed/activity => /repo
