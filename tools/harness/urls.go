package main

// urls: what net/url says about strings - does url.Parse accept them with a non-empty scheme (what makes a string an IRI
// for the decoders and for pub.ToId), and which host does it report (what the origin check of federated Update / Delete
// compares) - for the comparison with the model's character-level has_scheme / host_of (coq/Pub/Value.v).

import (
	"fmt"
	"net/url"
	"strings"
)

func runURLs() {
	r := &rng{s: *seed}
	s := &Summary{Rule: "IRIs assembled from {scheme} x {userinfo} x {host: names, case, sub-domains, IPv4, IPv6 literals, empty} x {port} x {path, escapes} x {query} x {fragment}, the ids the pub generators use, and a malformed stream (no scheme, digits first, blanks, bad escapes, bare colons); url.Parse's verdict and Host against the model's has_scheme / host_of", Dist: map[string]interface{}{}}
	var samples []string
	schemes := []string{"https", "http", "HTTPS", "urn", "mailto", "acct", "did", "tag", "h2+x-y.z"}
	users := []string{"", "u@", "u:p@", "a%40b@"}
	hosts := []string{"example.com", "EXAMPLE.com", "sub.example.com", "remote.example", "127.0.0.1", "[::1]", "[2001:db8::7]", "xn--bcher-kva.example", "example.com."}
	ports := []string{"", ":443", ":8443", ":0"}
	paths := []string{"", "/", "/users/alice", "/a/../b", "/%7Ealice", "/a%20b", "/x;y=1", "/Zm9vYmFy"}
	queries := []string{"", "?x=1", "?page=true&min_id=0", "?q=a/b"}
	frags := []string{"", "#top", "#likes/3", "#a?b"}
	n := 400
	if *tier == "thorough" {
		n = 6000
	}
	for i := 0; i < n; i++ {
		sc := schemes[r.intn(len(schemes))]
		var u string
		if sc == "urn" || sc == "mailto" || sc == "acct" || sc == "did" || sc == "tag" {
			u = sc + ":" + []string{"isbn:0451450523", "alice@example.com", "example:123", "example.org,2020:x", "uuid:6e8bc430-9c3a-11d9-9669-0800200c9a66"}[r.intn(5)]
		} else {
			u = sc + "://" + users[r.intn(len(users))] + hosts[r.intn(len(hosts))] + ports[r.intn(len(ports))] + paths[r.intn(len(paths))] + queries[r.intn(len(queries))] + frags[r.intn(len(frags))]
		}
		samples = append(samples, u)
	}
	samples = append(samples, "https://example.com/users/alice", "https://remote.example:444/notes/1-0", "https://REMOTE.example/notes/1", "https://u:p@remote.example/notes/1",
		"https://www.w3.org/ns/activitystreams#Public", "as:Public", "Public",
		"", "not an iri", "//remote.example/activities/relative", "/activities/1", "?x=1", "#frag", "remote.example/a", "1http://x", ":x", "http:", "http://", "http:///path",
		" https://example.com", "https://exa mple.com/", "https://example.com/%zz", "https://example.com/a b", "http//x", "h_t://x", "https:/one-slash", "https:example.com", "HTTPS://EXAMPLE.COM/A")
	var b strings.Builder
	b.WriteString("From Coq Require Import String List.\nImport ListNotations.\nOpen Scope string_scope.\n")
	b.WriteString("(* (string, url.Parse accepts it with a non-empty scheme, the Host it reports) *)\nDefinition observed_urls : list (string * bool * string) := [\n")
	first := true
	nIRI := 0
	for _, u := range samples {
		if strings.ContainsAny(u, "\x00") {
			continue
		}
		p, err := url.Parse(u)
		isIRI := err == nil && p != nil && len(p.Scheme) > 0
		h := ""
		if isIRI {
			h = p.Host
			nIRI++
		}
		if !first {
			b.WriteString(";\n")
		}
		first = false
		fmt.Fprintf(&b, " (%s, %s, %s)", coqStr(u), coqBool(isIRI), coqStr(h))
		s.Evaluations++
	}
	b.WriteString("\n].\n")
	writeFile("observed_urls.v", []byte(b.String()))
	s.Distinct = len(samples)
	s.Dist["strings"] = len(samples)
	s.Dist["accepted_as_iri_by_net_url"] = nIRI
	s.Samples = append(s.Samples, samples[0], samples[len(samples)-1])
	writeSummary(s)
}
