package main

import (
	"context"
	"encoding/json"
	"fmt"
	"net/url"
	"os"
	"reflect"
	"sort"
	"strings"
	"time"

	"github.com/go-fed/activity/streams"
	"github.com/go-fed/activity/streams/vocab"
)

// tables.json as written by the translator (only what the harness needs)
type tblField struct{ GoName, Iface string }
type tblType struct {
	Name, Vocab, VocabURI, Struct string
	Fields                        []tblField
	Typeless                      bool
}
type tblMember struct{ Field, GoType, Kind string }
type tblProp struct {
	Name, Vocab, VocabURI, Struct string
	Functional, HasMap            bool
	Members                       []tblMember
}
type tables struct {
	Types []tblType
	Props []tblProp
}

func loadTables() *tables {
	b, err := os.ReadFile("/verif/run/tables.json")
	if err != nil {
		panic(err)
	}
	var t tables
	if err := json.Unmarshal(b, &t); err != nil {
		panic(err)
	}
	return &t
}

var allContexts = []interface{}{"https://www.w3.org/ns/activitystreams", "https://forgefed.peers.community/ns", "http://joinmastodon.org/ns", "https://w3id.org/security/v1"}

func call(v interface{}, name string, args ...interface{}) (out []reflect.Value, ok bool) {
	m := reflect.ValueOf(v).MethodByName(name)
	if !m.IsValid() {
		return nil, false
	}
	in := make([]reflect.Value, len(args))
	for i, a := range args {
		in[i] = reflect.ValueOf(a)
	}
	return m.Call(in), true
}

func isNilVal(v reflect.Value) bool {
	switch v.Kind() {
	case reflect.Interface, reflect.Ptr, reflect.Map, reflect.Slice:
		return v.IsNil()
	}
	return false
}

// kindOfIs maps an Is<...> method name to the kind name used on the Coq side.
func kindOfIs(name string) string {
	n := strings.TrimPrefix(name, "Is")
	if n == "IRI" {
		return "IRI"
	}
	for _, h := range hierRows {
		if h.Struct == n {
			return h.Name
		}
	}
	for _, p := range []string{"XMLSchema", "RDF", "RFC"} {
		if strings.HasPrefix(n, p) {
			return "@" + strings.ToLower(strings.TrimPrefix(n, p))
		}
	}
	return "?" + n
}

// observedKinds lists the kinds an element reports through its Is* accessors.
func observedKinds(elem interface{}) []string {
	var out []string
	t := reflect.TypeOf(elem)
	for i := 0; i < t.NumMethod(); i++ {
		m := t.Method(i)
		if !strings.HasPrefix(m.Name, "Is") || m.Type.NumIn() != 1 || m.Type.NumOut() != 1 || m.Type.Out(0).Kind() != reflect.Bool {
			continue
		}
		if reflect.ValueOf(elem).Method(i).Call(nil)[0].Bool() {
			k := kindOfIs(m.Name)
			if k == "@anyuri" {
				// IsIRI and IsXMLSchemaAnyURI are the same slot on anyURI properties
				dup := false
				for _, o := range out {
					if o == "IRI" || o == "@anyuri" {
						dup = true
					}
				}
				if dup {
					continue
				}
			}
			if k == "IRI" {
				dup := false
				for _, o := range out {
					if o == "@anyuri" {
						dup = true
					}
				}
				if dup {
					continue
				}
			}
			out = append(out, k)
		}
	}
	sort.Strings(out)
	return out
}

var litSamples = map[string]interface{}{
	"IRI": "https://example.org/iri", "@anyuri": "https://example.org/any", "@string": "plain text",
	"@boolean": true, "@float": 1.5, "@nonnegativeinteger": 3.0, "@langstring": map[string]interface{}{"en": "x"},
	"@datetime": "2020-02-29T12:00:00Z", "@duration": "PT5S", "@bcp47": "en-US", "@rfc2045": "text/plain", "@rfc5988": "me",
}
var litKinds = []string{"IRI", "@anyuri", "@string", "@boolean", "@float", "@nonnegativeinteger", "@langstring", "@datetime", "@duration", "@bcp47", "@rfc2045", "@rfc5988"}

func sampleFor(kind string, t *tables) interface{} {
	if v, ok := litSamples[kind]; ok {
		return v
	}
	for _, ty := range t.Types {
		if ty.Name == kind {
			if ty.Typeless {
				return map[string]interface{}{"publicKeyPem": "PEM", "id": "https://example.org/key"}
			}
			return map[string]interface{}{"type": ty.Name, "id": "https://example.org/emb"}
		}
	}
	return nil
}

func toType(m map[string]interface{}) (t vocab.Type, err error, panicked bool) {
	defer func() {
		if r := recover(); r != nil {
			panicked = true
		}
	}()
	t, err = streams.ToType(context.Background(), m)
	return
}

func hostType(p tblProp, t *tables) *tblType {
	for i := range t.Types {
		for _, f := range t.Types[i].Fields {
			if f.Iface == p.Struct && !t.Types[i].Typeless {
				return &t.Types[i]
			}
		}
	}
	for i := range t.Types {
		for _, f := range t.Types[i].Fields {
			if f.Iface == p.Struct {
				return &t.Types[i]
			}
		}
	}
	return nil
}

func getterOf(ty *tblType, p tblProp) string {
	for _, f := range ty.Fields {
		if f.Iface == p.Struct {
			return "Get" + f.GoName
		}
	}
	return ""
}

func firstElem(prop interface{}, functional bool) (interface{}, int) {
	if functional {
		return prop, 1
	}
	ln, _ := call(prop, "Len")
	n := int(ln[0].Int())
	if n == 0 {
		return nil, 0
	}
	at, _ := call(prop, "At", 0)
	return at[0].Interface(), n
}

func runC12() {
	t := loadTables()
	r := &rng{s: *seed}
	s := &Summary{Rule: "exhaustive (type x property) and (property x kind) documents decoded by streams.ToType and inspected through the typed accessors by reflection; arrays on every property; Map spelling on natural-language properties; sampled dateTime/duration/integer lexical forms; non-trivial = the property is outside the type's set, or the value kind is outside the property's range, or the lexical form is at a boundary (leap day, zone offset, missing digits, overflow)", Exhaustive: false, Dist: map[string]interface{}{}}
	var b strings.Builder
	b.WriteString("From Coq Require Import String List ZArith.\nImport ListNotations.\nOpen Scope string_scope.\n")
	// ---- A: type x property
	b.WriteString("(* A: per type, per property (order of obs_props): 0 = typed accessor, 1 = kept as unknown member, 9 = anomaly *)\n")
	var pn []string
	for _, p := range t.Props {
		pn = append(pn, p.Name)
	}
	fmt.Fprintf(&b, "Definition obs_props : list string := %s.\n", coqList(pn))
	b.WriteString("Definition obs_type_prop : list (string * list nat) := [\n")
	for ti, ty := range t.Types {
		var codes []int
		for _, p := range t.Props {
			code := 9
			if p.Name == "type" {
				// the type member itself: typed accessor must exist unless typeless
				doc := map[string]interface{}{"@context": allContexts, "type": ty.Name}
				v, err, pk := toType(doc)
				if err == nil && !pk {
					g := ""
					for _, f := range ty.Fields {
						if f.Iface == p.Struct {
							g = "Get" + f.GoName
						}
					}
					if g == "" {
						if _, has := unknownOf(v)["type"]; has {
							code = 1
						}
					} else if out, ok := call(v, g); ok && !isNilVal(out[0]) {
						code = 0
					}
				}
				codes = append(codes, code)
				s.Evaluations++
				continue
			}
			doc := map[string]interface{}{"@context": allContexts, "type": ty.Name, p.Name: "https://example.org/v"}
			v, err, pk := toType(doc)
			s.Evaluations++
			if err != nil || pk || v == nil {
				codes = append(codes, 9)
				continue
			}
			_, inUnknown := unknownOf(v)[p.Name]
			typed := false
			for _, f := range ty.Fields {
				if f.Iface == p.Struct {
					if out, ok := call(v, "Get"+f.GoName); ok && !isNilVal(out[0]) {
						typed = true
					}
				}
			}
			// also probe the accessor by its conventional name even if the struct (per translator) lacks the field
			switch {
			case typed && !inUnknown:
				code = 0
			case !typed && inUnknown:
				code = 1
			}
			codes = append(codes, code)
			if code == 1 {
				s.Distinct++
			}
		}
		if ti > 0 {
			b.WriteString(";\n")
		}
		fmt.Fprintf(&b, " (%s, %s)", coqStr(ty.Name), coqNats(codes))
	}
	b.WriteString("\n].\n")
	// ---- B: property x kind
	var kinds []string
	kinds = append(kinds, litKinds...)
	for _, ty := range t.Types {
		kinds = append(kinds, ty.Name)
	}
	fmt.Fprintf(&b, "Definition obs_kinds : list string := %s.\n", coqList(kinds))
	b.WriteString("(* B: per property, per value kind (order of obs_kinds): the kind the element's Is* accessors report (index into obs_kinds, or 200 = none/unknown, 201 = several, 202 = decode error, 203 = panic) *)\n")
	b.WriteString("Definition obs_prop_kind : list (string * list nat) := [\n")
	kidx := map[string]int{}
	for i, k := range kinds {
		kidx[k] = i
	}
	urlOK := func(sv string) bool { u, err := url.Parse(sv); return err == nil && len(u.Scheme) > 0 }
	for k, v := range litSamples {
		if sv, ok := v.(string); ok {
			want := k == "IRI" || k == "@anyuri"
			if urlOK(sv) != want {
				s.Violations = append(s.Violations, Violation{What: "harness oracle: url_ok assumption wrong for sample " + sv, Sig: "C12:oracle", Replay: sv})
			}
		}
	}
	first := true
	for _, p := range t.Props {
		ty := hostType(p, t)
		if ty == nil || p.Name == "type" {
			continue
		}
		getter := getterOf(ty, p)
		var codes []int
		for _, k := range kinds {
			val := sampleFor(k, t)
			doc := map[string]interface{}{"@context": allContexts, "type": ty.Name, p.Name: val}
			v, err, pk := toType(doc)
			s.Evaluations++
			code := 200
			switch {
			case pk:
				code = 203
			case err != nil || v == nil:
				code = 202
			default:
				out, ok := call(v, getter)
				if !ok || isNilVal(out[0]) {
					code = 202
				} else {
					el, n := firstElem(out[0].Interface(), p.Functional)
					if n != 1 {
						code = 202
					} else {
						ks := observedKinds(el)
						if len(ks) == 1 {
							if i, ok := kidx[ks[0]]; ok {
								code = i
							} else {
								code = 201
							}
						} else if len(ks) > 1 {
							code = 201
						}
					}
				}
			}
			codes = append(codes, code)
			if code == 200 {
				s.Distinct++
			}
		}
		if !first {
			b.WriteString(";\n")
		}
		first = false
		fmt.Fprintf(&b, " (%s, %s)", coqStr(p.Name), coqNats(codes))
	}
	b.WriteString("\n].\n")
	// ---- B2: an IRI is an IRI whatever its scheme; a language map is an object of strings and nothing else
	kindsOf := func(ty *tblType, p tblProp, key string, val interface{}) (string, bool) {
		doc := map[string]interface{}{"@context": allContexts, "type": ty.Name, key: val}
		v, err, pk := toType(doc)
		s.Evaluations++
		if pk {
			return "panic", true
		}
		if err != nil || v == nil {
			return "error", true
		}
		out, ok := call(v, getterOf(ty, p))
		if !ok || isNilVal(out[0]) {
			return "unknown", true
		}
		el, n := firstElem(out[0].Interface(), p.Functional)
		if n != 1 || el == nil {
			return "unknown", true
		}
		ks := observedKinds(el)
		sort.Strings(ks)
		return strings.Join(ks, "+"), true
	}
	for _, p := range t.Props {
		ty := hostType(p, t)
		if ty == nil || p.Name == "type" {
			continue
		}
		ref, _ := kindsOf(ty, p, p.Name, "https://example.org/iri")
		for _, iri := range []string{"urn:uuid:6e8bc430-9c3a-11d9-9669-0800200c9a66", "mailto:alice@example.org", "acct:alice@example.org", "magnet:?xt=urn:btih:c12fe1", "tag:example.org,2020:x", "did:example:123", "http://[::1]:8080/x", "https://example.org"} {
			got, _ := kindsOf(ty, p, p.Name, iri)
			if got != ref {
				s.Violations = append(s.Violations, Violation{What: fmt.Sprintf("property %s reads the IRI %s as %s but an https IRI as %s: an absolute IRI of any scheme is an IRI", p.Name, iri, got, ref),
					Sig: "C12:iri-scheme:" + p.Name, Replay: map[string]interface{}{"type": ty.Name, "property": p.Name, "value": iri}})
				break
			}
		}
		if !p.HasMap && p.Name != "id" { // <name>Map of a property that is no natural-language one is a member like any other: kept as unknown
			doc := map[string]interface{}{"@context": allContexts, "type": ty.Name, p.Name + "Map": "kept verbatim"}
			v, err, pk := toType(doc)
			s.Evaluations++
			if err == nil && !pk && v != nil {
				if _, has := unknownOf(v)[p.Name+"Map"]; !has {
					s.Violations = append(s.Violations, Violation{What: fmt.Sprintf("member %sMap (no natural-language property) is not kept as an unknown member", p.Name),
						Sig: "C12:map-suffix-unknown:" + p.Name, Replay: map[string]interface{}{"type": ty.Name, "member": p.Name + "Map"}})
				}
			}
		}
		hasBool := false
		for _, m := range p.Members {
			if m.Kind == "V:boolean" {
				hasBool = true
			}
		}
		// the whole declared range of every literal kind, not one sample of it: counts beyond 32 bits, floats of either sign and
		// any magnitude, the empty string, the first and the last year - each is read as the kind the ontology declares
		rangeSamples := map[string][]interface{}{
			"V:nonNegativeInteger": {float64(0), float64(2147483647), float64(2147483648), float64(4000000000), float64(9007199254740991)},
			"V:float":              {float64(0), float64(-1), 1e300, -1e300, 1e-300, float64(4000000000)},
			"V:string":             {"", " ", "4000000000", "true"},
			"V:dateTime":           {"0000-01-01T00:00:00Z", "9999-12-31T23:59:59Z", "1970-01-01T00:00:00+14:00"},
			"V:duration":           {"P", "PT0S", "P292Y", "-P292Y", "PT9223372036S"},
		}
		for _, m := range p.Members {
			vals, ok := rangeSamples[m.Kind]
			if !ok {
				continue
			}
			want := "@" + strings.ToLower(strings.TrimPrefix(m.Kind, "V:"))
			base, _ := kindsOf(ty, p, p.Name, litSamples[want])
			if !strings.Contains(base, want) {
				continue // another kind of the chain takes this kind's sample first (units: string before anyURI, ...)
			}
			for _, val := range vals {
				got, _ := kindsOf(ty, p, p.Name, val)
				if got != base {
					s.Violations = append(s.Violations, Violation{What: fmt.Sprintf("property %s reads %v (in the range of %s) as %s, its sample %v as %s", p.Name, val, m.Kind, got, litSamples[want], base),
						Sig: "C12:range:" + p.Name + ":" + m.Kind, Replay: map[string]interface{}{"type": ty.Name, "property": p.Name, "value": val, "kind": m.Kind}})
					break
				}
			}
		}
		if hasBool { // the lexical space of xsd:boolean: true, false, 1, 0 and no other number
			for _, num := range []float64{7, 2.5, -1, 4000000000} {
				got, _ := kindsOf(ty, p, p.Name, num)
				if strings.Contains(got, "@boolean") {
					s.Violations = append(s.Violations, Violation{What: fmt.Sprintf("property %s reads the number %v as a boolean", p.Name, num),
						Sig: "C12:boolean-number:" + p.Name, Replay: map[string]interface{}{"type": ty.Name, "property": p.Name, "value": num}})
					break
				}
			}
		}
		if p.HasMap { // the per-language accessors see every entry of a decoded map under the tag as written (region / script subtags)
			tags := map[string]interface{}{"en": "colour", "en-US": "color", "pt-BR": "cor", "zh-Hant": "x", "EN-gb": "y"}
			doc := map[string]interface{}{"@context": allContexts, "type": ty.Name, p.Name + "Map": tags}
			if v, err, pk := toType(doc); err == nil && !pk && v != nil {
				if out, ok := call(v, getterOf(ty, p)); ok && !isNilVal(out[0]) {
					if el, n := firstElem(out[0].Interface(), p.Functional); n == 1 && el != nil {
						for tag, want := range tags {
							has, ok1 := call(el, "HasLanguage", tag)
							got, ok2 := call(el, "GetLanguage", tag)
							s.Evaluations++
							if ok1 && ok2 && (!has[0].Bool() || got[0].String() != want.(string)) {
								s.Violations = append(s.Violations, Violation{What: fmt.Sprintf("property %s: the decoded language map has %q, but HasLanguage(%q) = %v and GetLanguage = %q", p.Name, tag, tag, has[0].Bool(), got[0].String()),
									Sig: "C12:language-accessor:" + p.Name, Replay: map[string]interface{}{"type": ty.Name, "property": p.Name, "tag": tag}})
								break
							}
						}
					}
				}
			}
			for _, key := range []string{p.Name, p.Name + "Map"} {
				for _, val := range []interface{}{map[string]interface{}{"en": "x", "n": 5.0}, map[string]interface{}{"en": []interface{}{"a"}}, map[string]interface{}{"en": "x", "o": map[string]interface{}{"k": "v"}},
					map[string]interface{}{"type": "Image", "url": "https://example.org/i.png", "width": 5.0}} {
					got, _ := kindsOf(ty, p, key, val)
					if strings.Contains(got, "@langstring") {
						s.Violations = append(s.Violations, Violation{What: fmt.Sprintf("property %s reads an object with a member that is no string as a language map", key),
							Sig: "C12:langmap-nonstring:" + p.Name, Replay: map[string]interface{}{"type": ty.Name, "property": key, "value": val}})
						break
					}
				}
			}
		}
	}
	// ---- C: arrays: (property, functional, len reported, kind code of first element)
	b.WriteString("(* C: a two-element array given to every property: (name, elements held (functional: 1), reports a known kind) *)\n")
	b.WriteString("Definition obs_arrays : list (string * nat * bool) := [\n")
	first = true
	for _, p := range t.Props {
		ty := hostType(p, t)
		if ty == nil || p.Name == "type" || p.Name == "id" {
			continue
		}
		k := "IRI"
		doc := map[string]interface{}{"@context": allContexts, "type": ty.Name, p.Name: []interface{}{sampleFor(k, t), "https://example.org/second"}}
		v, err, pk := toType(doc)
		s.Evaluations++
		n, known := 99, false
		if err == nil && !pk && v != nil {
			if out, ok := call(v, getterOf(ty, p)); ok && !isNilVal(out[0]) {
				el, cnt := firstElem(out[0].Interface(), p.Functional)
				n = cnt
				if el != nil {
					known = len(observedKinds(el)) > 0
				}
			}
		}
		if !first {
			b.WriteString(";\n")
		}
		first = false
		fmt.Fprintf(&b, " (%s, %d, %s)", coqStr(p.Name), n, coqBool(known))
	}
	b.WriteString("\n].\n")
	// ---- D: Map spelling
	b.WriteString("(* D: <name>Map given: (name, landed as langString on the typed accessor, re-serialised under <name>Map) *)\n")
	b.WriteString("Definition obs_maps : list (string * bool * bool) := [\n")
	first = true
	for _, p := range t.Props {
		ty := hostType(p, t)
		if ty == nil || p.Name == "type" || p.Name == "id" {
			continue
		}
		doc := map[string]interface{}{"@context": allContexts, "type": ty.Name, p.Name + "Map": map[string]interface{}{"en": "x", "fr": "y"}}
		v, err, pk := toType(doc)
		s.Evaluations++
		landed, reser := false, false
		if err == nil && !pk && v != nil {
			if out, ok := call(v, getterOf(ty, p)); ok && !isNilVal(out[0]) {
				el, cnt := firstElem(out[0].Interface(), p.Functional)
				if cnt == 1 && el != nil {
					ks := observedKinds(el)
					landed = len(ks) == 1 && ks[0] == "@langstring"
				}
			}
			if m, err := streams.Serialize(v); err == nil {
				_, reser = m[p.Name+"Map"]
			}
		}
		if !first {
			b.WriteString(";\n")
		}
		first = false
		fmt.Fprintf(&b, " (%s, %s, %s)", coqStr(p.Name), coqBool(landed), coqBool(reser))
	}
	b.WriteString("\n].\n")
	// ---- E: literal values
	nlit := 150
	if *tier == "thorough" {
		nlit = 1500
	}
	b.WriteString("(* E: dateTime strings on Note.published: (lexical, accepted, unix seconds, zone offset seconds) *)\n")
	b.WriteString("Definition obs_datetimes : list (string * bool * Z * Z) := [\n")
	dtSamples := []string{"2020-02-29T12:00:00Z", "2021-02-29T12:00:00Z", "1970-01-01T00:00:00Z", "2000-12-31T23:59:59+14:00", "0001-01-01T00:00:00Z", "9999-12-31T23:59:59-12:00", "2020-03-01T01:02Z", "2020-03-01T01:02+05:30", "2020-13-01T00:00:00Z", "2020-00-10T00:00:00Z", "2020-04-31T00:00:00Z", "2020-01-01T24:00:00Z", "2020-01-01T00:60:00Z", "2020-01-01T00:00:60Z", "2020-01-01 00:00:00Z", "2020-01-01T00:00:00", "2020-01-01", "1900-02-29T00:00:00Z", "2400-02-29T00:00:00Z", "2100-02-28T23:59:59-00:01",
		"0000-01-01T00:00:00Z", "0000-01-15T00:00:00Z", "0000-02-29T12:00:00Z", "0000-03-01T00:00:00Z", "0000-12-31T23:59:59+01:00"}
	for i := 0; i < nlit; i++ {
		y, mo, d := 1+r.intn(9999), 1+r.intn(12), 1+r.intn(31)
		if r.chance(1, 8) {
			mo = 2
			d = 28 + r.intn(2)
		}
		h, mi, sc := r.intn(24), r.intn(60), r.intn(60)
		zone := "Z"
		if r.chance(1, 2) {
			zone = fmt.Sprintf("%c%02d:%02d", "+-"[r.intn(2)], r.intn(15), []int{0, 30, 45, 59}[r.intn(4)])
		}
		if r.chance(1, 6) {
			dtSamples = append(dtSamples, fmt.Sprintf("%04d-%02d-%02dT%02d:%02d%s", y, mo, d, h, mi, zone))
		} else {
			dtSamples = append(dtSamples, fmt.Sprintf("%04d-%02d-%02dT%02d:%02d:%02d%s", y, mo, d, h, mi, sc, zone))
		}
	}
	for i, ds := range dtSamples {
		doc := map[string]interface{}{"@context": allContexts, "type": "Note", "published": ds}
		v, err, pk := toType(doc)
		s.Evaluations++
		acc, unix, off := false, int64(0), 0
		if err == nil && !pk && v != nil {
			if pub := v.(vocab.ActivityStreamsNote).GetActivityStreamsPublished(); pub != nil && pub.IsXMLSchemaDateTime() {
				acc = true
				tm := pub.Get()
				unix = tm.Unix()
				_, off = tm.Zone()
			}
		}
		if i > 0 {
			b.WriteString(";\n")
		}
		fmt.Fprintf(&b, " (%s, %s, (%d)%%Z, (%d)%%Z)", coqStr(ds), coqBool(acc), unix, off)
		s.Distinct++
	}
	b.WriteString("\n].\n")
	b.WriteString("(* E: duration strings on Note.duration: (lexical, 0 = accepted / 1 = rejected / 2 = panic, nanoseconds) *)\n")
	b.WriteString("Definition obs_durations : list (string * nat * Z) := [\n")
	durSamples := []string{"PT5S", "P1Y2M3DT4H5M6S", "P1Y", "P40D", "-P1D", "P", "PT", "PY", "P1YT", "PTS", "P3M", "PT3M", "P1Y1Y", "Pxyz", "P1.5Y", "P9223372036854775807S", "PT9223372036854775807S", "PT9223372036S", "PT9223372037S", "P292Y", "P293Y", "P106751D", "P106752D", "-P292Y", "P0Y0M0DT0H0M0S", "P00001Y", "p1Y", "1Y", "P1y", " P1Y", "P1Y ", "", "-", "--P1Y", "-P", "P1DT", "P1H", "PT1D", "P1M1Y",
		"PT18446744073S", "P400Y", "P1000000Y", "-P400Y", "P292Y200D", "PT9223372036S", "P99999999999999999999Y", "P12814M", "PT153722867M", "PT2562048H"}
	for i := 0; i < nlit; i++ {
		var sb strings.Builder
		if r.chance(1, 6) {
			sb.WriteString("-")
		}
		sb.WriteString("P")
		for _, u := range []string{"Y", "M", "D"} {
			if r.chance(1, 2) {
				fmt.Fprintf(&sb, "%d%s", r.intn(400), u)
			}
		}
		if r.chance(2, 3) {
			sb.WriteString("T")
			for _, u := range []string{"H", "M", "S"} {
				if r.chance(1, 2) {
					if r.chance(1, 12) {
						fmt.Fprintf(&sb, "%d%s", uint64(1)<<uint(40+r.intn(24)), u)
					} else {
						fmt.Fprintf(&sb, "%d%s", r.intn(100000), u)
					}
				}
			}
		}
		durSamples = append(durSamples, sb.String())
	}
	for i, ds := range durSamples {
		doc := map[string]interface{}{"@context": allContexts, "type": "Note", "duration": ds}
		v, err, pk := toType(doc)
		s.Evaluations++
		code, ns := 1, int64(0)
		if pk {
			code = 2
		} else if err == nil && v != nil {
			if du := v.(vocab.ActivityStreamsNote).GetActivityStreamsDuration(); du != nil && du.IsXMLSchemaDuration() {
				code = 0
				ns = int64(du.Get())
			}
		}
		if i > 0 {
			b.WriteString(";\n")
		}
		fmt.Fprintf(&b, " (%s, %d, (%d)%%Z)", coqStr(ds), code, ns)
		s.Distinct++
	}
	b.WriteString("\n].\n")
	_ = time.Second
	writeFile("observed.v", []byte(b.String()))
	s.Dist["types"] = len(t.Types)
	s.Dist["properties"] = len(t.Props)
	s.Dist["kinds"] = len(kinds)
	s.Dist["datetimes"] = len(dtSamples)
	s.Dist["durations"] = len(durSamples)
	s.Samples = append(s.Samples, map[string]interface{}{"type": "Note", "property": "items", "doc": map[string]interface{}{"type": "Note", "items": "https://example.org/v"}},
		map[string]interface{}{"datetime": dtSamples[len(dtSamples)-1]}, map[string]interface{}{"duration": durSamples[len(durSamples)-1]})
	writeSummary(s)
}

func unknownOf(v vocab.Type) map[string]interface{} {
	if u, ok := v.(interface{ GetUnknownProperties() map[string]interface{} }); ok {
		return u.GetUnknownProperties()
	}
	return nil
}
