package main

// In-memory recording implementations of every application-supplied interface
// of package pub.  Every call is appended to the trace as (event, answer); the
// n-th fallible call can be made to fail.  This is the harness side of the
// correspondence: it is assumed (trusted base) to behave like a reasonable
// application Database / Transport.

import (
	"context"
	"crypto/sha256"
	"encoding/base64"
	"encoding/json"
	"errors"
	"fmt"
	"net/http"
	"net/url"
	"sort"
	"strings"
	"time"

	"github.com/go-fed/activity/pub"
	"github.com/go-fed/activity/streams"
	"github.com/go-fed/activity/streams/vocab"
)

type jmap = map[string]interface{}

var errInjected = errors.New("injected fault")

// entry is one (event, answer) pair in the form the Coq side prints.
type entry struct {
	Tid  int           // C08: the thread that made the call
	Kind string        // lock unlock db newtransport deref batch app writeheader setheader write now
	Name string        // db op / app callback name / iri / header key
	Args []interface{} // JSON values (already decoded Go values), or strings for iris
	Strs []string      // recipients for batch
	Num  int           // status code
	Ans  answer
}

type answer struct {
	Kind string // ok err bool iri none json iris nat str z notjson
	B    bool
	S    string
	J    interface{}
	L    []string
	N    int
	Z    int64
}

type config struct {
	Social, Federating bool
	OnFollow           int
	FedWrapped         []string
	FedOther           []string
	SocWrapped         []string
	SocOther           []string
	MaxDelivery        int
	MaxForwarding      int
	Auth               string // ok | denied | error   (authentication outcome for the entry point used)
	Blocked            []string
	BlockError         bool
	BlockErrorTrue     bool // Blocked answers (true, error): the boolean is to be ignored when an error is returned
	Filter             string // all | none | first
}

// world is the application state.
type world struct {
	Store          map[string]jmap // id -> serialised value (as a real database would hold it)
	Owned          map[string]bool // ids this server owns
	ActorForOutbox map[string]string
	ActorForInbox  map[string]string
	OutboxForInbox map[string]string
	InboxForActor  map[string]string // application-stored inboxes
	Inboxes        map[string]jmap   // inbox IRI -> OrderedCollectionPage
	Outboxes       map[string]jmap
	Followers      map[string]jmap // actor -> Collection
	Following      map[string]jmap
	Liked          map[string]jmap
	Remote         map[string]remoteDoc
	NewIDBase      string
	Clock          int64
	ClockNanos     int64 // the sub-second part of the clock's reading
}

type remoteDoc struct {
	Kind string // doc | notjson | unreachable
	Doc  jmap
	Raw  string
}

type recorder struct {
	w       *world
	cfg     *config
	trace   []entry
	nFall   int          // fallible calls so far
	faults  map[int]bool // indices (0-based, in order of fallible calls) that fail
	tfaults map[int]map[int]bool // per request (C08): request -> indices of its own fallible calls that fail
	tnFall  map[int]int
	relockNeverReturns bool // C11: the application's lock is not re-entrant - a Lock of an id this request holds never returns
	newIDs  int
	held    map[string]int
	panicky bool
	sched   *scheduler // non-nil for C08
	tid     int
}

func (r *recorder) fail() bool {
	if r.tfaults != nil { // concurrent requests: the n-th fallible call of one request fails, whatever the others do meanwhile
		i := r.tnFall[r.tid]
		r.tnFall[r.tid]++
		return r.tfaults[r.tid][i]
	}
	i := r.nFall
	r.nFall++
	return r.faults[i]
}

func (r *recorder) rec(e entry) {
	e.Tid = r.tid
	r.trace = append(r.trace, e)
	if len(r.trace) > 200000 {
		// no request of the generated sizes makes this many calls: unbounded recursion / iteration in the library
		panic("runaway: more than 20000 Database / Transport / callback calls in one request")
	}
}

func deepCopy(m jmap) jmap {
	if m == nil {
		return nil
	}
	b, _ := json.Marshal(m)
	var out jmap
	_ = json.Unmarshal(b, &out)
	return out
}

// serialise a typed value the way a Database would (type-level Serialize: keeps
// whatever @context the value carries among its unknown members).
func ser(t vocab.Type) jmap {
	if t == nil {
		return nil
	}
	m, err := t.Serialize()
	if err != nil {
		return jmap{"<serialize error>": err.Error()}
	}
	return deepCopy(m)
}

func toTyped(m jmap) (vocab.Type, error) {
	mm := deepCopy(m)
	if _, ok := mm["@context"]; !ok {
		mm["@context"] = "https://www.w3.org/ns/activitystreams"
		t, err := streams.ToType(context.Background(), mm)
		if err != nil {
			return nil, err
		}
		// the value must not grow an @context it did not have
		if u, ok := t.(interface{ GetUnknownProperties() map[string]interface{} }); ok {
			delete(u.GetUnknownProperties(), "@context")
		}
		return t, nil
	}
	return streams.ToType(context.Background(), mm)
}

func us(u *url.URL) string {
	if u == nil {
		return "<nil>"
	}
	return u.String()
}

func mustURL(s string) *url.URL {
	u, err := url.Parse(s)
	if err != nil {
		panic(err)
	}
	return u
}

// ---------------------------------------------------------------- Database

func (r *recorder) Lock(c context.Context, id *url.URL) error {
	r.yield("Lock " + us(id))
	if r.sched != nil {
		if !r.sched.acquire(r.tid, us(id)) { // a lock that does not wait (timeout / cancelled request): refused, not taken
			r.rec(entry{Kind: "lock", Name: us(id), Ans: answer{Kind: "err"}})
			return errInjected
		}
	}
	if r.fail() {
		if r.sched != nil {
			r.sched.release(r.tid, us(id))
		}
		r.rec(entry{Kind: "lock", Name: us(id), Ans: answer{Kind: "err"}})
		return errInjected
	}
	if r.relockNeverReturns && r.held[us(id)] > 0 {
		panic("relock: Lock of " + us(id) + " while this request holds it - with a lock that is not re-entrant the request never returns")
	}
	r.held[us(id)]++
	r.rec(entry{Kind: "lock", Name: us(id), Ans: answer{Kind: "ok"}})
	return nil
}

func (r *recorder) Unlock(c context.Context, id *url.URL) error {
	r.yield("Unlock " + us(id))
	r.held[us(id)]--
	if r.sched != nil {
		r.sched.release(r.tid, us(id))
	}
	if r.fail() {
		r.rec(entry{Kind: "unlock", Name: us(id), Ans: answer{Kind: "err"}})
		return errInjected
	}
	r.rec(entry{Kind: "unlock", Name: us(id), Ans: answer{Kind: "ok"}})
	return nil
}

func (r *recorder) dbCall(op string, args []interface{}, f func() answer) answer {
	r.yield(op)
	var a answer
	if r.fail() {
		a = answer{Kind: "err"}
	} else {
		a = f()
	}
	r.rec(entry{Kind: "db", Name: op, Args: args, Ans: a})
	return a
}

func (r *recorder) InboxContains(c context.Context, inbox, id *url.URL) (bool, error) {
	a := r.dbCall("InboxContains", []interface{}{us(inbox), us(id)}, func() answer {
		page := r.w.Inboxes[us(inbox)]
		for _, it := range listOf(page["orderedItems"]) {
			if s, ok := it.(string); ok && s == us(id) {
				return answer{Kind: "bool", B: true}
			}
			if m, ok := it.(map[string]interface{}); ok && m["id"] == us(id) {
				return answer{Kind: "bool", B: true}
			}
		}
		return answer{Kind: "bool", B: false}
	})
	if a.Kind == "err" {
		return false, errInjected
	}
	return a.B, nil
}

func listOf(v interface{}) []interface{} {
	switch x := v.(type) {
	case nil:
		return nil
	case []interface{}:
		return x
	}
	return []interface{}{v}
}

func (r *recorder) getPage(op string, pages map[string]jmap, iri *url.URL) (vocab.ActivityStreamsOrderedCollectionPage, error) {
	a := r.dbCall(op, []interface{}{us(iri)}, func() answer {
		p, ok := pages[us(iri)]
		if !ok {
			p = jmap{"type": "OrderedCollectionPage", "id": us(iri)}
		}
		return answer{Kind: "json", J: deepCopy(p)}
	})
	if a.Kind == "err" {
		return nil, errInjected
	}
	t, err := toTyped(a.J.(jmap))
	if err != nil {
		return nil, err
	}
	return t.(vocab.ActivityStreamsOrderedCollectionPage), nil
}

func (r *recorder) GetInbox(c context.Context, inboxIRI *url.URL) (vocab.ActivityStreamsOrderedCollectionPage, error) {
	return r.getPage("GetInbox", r.w.Inboxes, inboxIRI)
}
func (r *recorder) GetOutbox(c context.Context, outboxIRI *url.URL) (vocab.ActivityStreamsOrderedCollectionPage, error) {
	return r.getPage("GetOutbox", r.w.Outboxes, outboxIRI)
}

func (r *recorder) setPage(op string, pages map[string]jmap, p vocab.ActivityStreamsOrderedCollectionPage) error {
	m := ser(p)
	a := r.dbCall(op, []interface{}{m}, func() answer {
		if id, ok := m["id"].(string); ok {
			pages[id] = deepCopy(m)
		}
		return answer{Kind: "ok"}
	})
	if a.Kind == "err" {
		return errInjected
	}
	return nil
}
func (r *recorder) SetInbox(c context.Context, p vocab.ActivityStreamsOrderedCollectionPage) error {
	return r.setPage("SetInbox", r.w.Inboxes, p)
}
func (r *recorder) SetOutbox(c context.Context, p vocab.ActivityStreamsOrderedCollectionPage) error {
	return r.setPage("SetOutbox", r.w.Outboxes, p)
}

func (r *recorder) Owns(c context.Context, id *url.URL) (bool, error) {
	a := r.dbCall("Owns", []interface{}{us(id)}, func() answer { return answer{Kind: "bool", B: r.w.Owned[us(id)]} })
	if a.Kind == "err" {
		return false, errInjected
	}
	return a.B, nil
}

func (r *recorder) iriLookup(op string, m map[string]string, key *url.URL, optional bool) (*url.URL, error) {
	a := r.dbCall(op, []interface{}{us(key)}, func() answer {
		v, ok := m[us(key)]
		if !ok {
			if optional {
				return answer{Kind: "none"}
			}
			return answer{Kind: "err"}
		}
		return answer{Kind: "iri", S: v}
	})
	switch a.Kind {
	case "err":
		return nil, errInjected
	case "none":
		return nil, nil
	}
	return mustURL(a.S), nil
}
func (r *recorder) ActorForOutbox(c context.Context, i *url.URL) (*url.URL, error) {
	return r.iriLookup("ActorForOutbox", r.w.ActorForOutbox, i, false)
}
func (r *recorder) ActorForInbox(c context.Context, i *url.URL) (*url.URL, error) {
	return r.iriLookup("ActorForInbox", r.w.ActorForInbox, i, false)
}
func (r *recorder) OutboxForInbox(c context.Context, i *url.URL) (*url.URL, error) {
	return r.iriLookup("OutboxForInbox", r.w.OutboxForInbox, i, false)
}
func (r *recorder) InboxForActor(c context.Context, i *url.URL) (*url.URL, error) {
	return r.iriLookup("InboxForActor", r.w.InboxForActor, i, true)
}

func (r *recorder) Exists(c context.Context, id *url.URL) (bool, error) {
	a := r.dbCall("Exists", []interface{}{us(id)}, func() answer {
		_, ok := r.w.Store[us(id)]
		return answer{Kind: "bool", B: ok}
	})
	if a.Kind == "err" {
		return false, errInjected
	}
	return a.B, nil
}

func (r *recorder) Get(c context.Context, id *url.URL) (vocab.Type, error) {
	a := r.dbCall("Get", []interface{}{us(id)}, func() answer {
		m, ok := r.w.Store[us(id)]
		if !ok {
			return answer{Kind: "none"}
		}
		return answer{Kind: "json", J: deepCopy(m)}
	})
	switch a.Kind {
	case "err":
		return nil, errInjected
	case "none":
		return nil, nil
	}
	t, err := toTyped(a.J.(jmap))
	if err != nil {
		return nil, err
	}
	return t, nil
}

func (r *recorder) put(op string, t vocab.Type) error {
	m := ser(t)
	a := r.dbCall(op, []interface{}{m}, func() answer {
		if id, ok := m["id"].(string); ok {
			// collections handed out by Followers/Following/Liked are written back where they came from
			switch {
			case r.w.Followers[idOwner(r.w.Followers, id)] != nil && idOwner(r.w.Followers, id) != "":
				r.w.Followers[idOwner(r.w.Followers, id)] = deepCopy(m)
			case idOwner(r.w.Following, id) != "":
				r.w.Following[idOwner(r.w.Following, id)] = deepCopy(m)
			case idOwner(r.w.Liked, id) != "":
				r.w.Liked[idOwner(r.w.Liked, id)] = deepCopy(m)
			default:
				r.w.Store[id] = deepCopy(m)
			}
		}
		return answer{Kind: "ok"}
	})
	if a.Kind == "err" {
		return errInjected
	}
	return nil
}

func idOwner(cols map[string]jmap, id string) string {
	for actor, c := range cols {
		if c["id"] == id {
			return actor
		}
	}
	return ""
}

func (r *recorder) Create(c context.Context, t vocab.Type) error { return r.put("Create", t) }
func (r *recorder) Update(c context.Context, t vocab.Type) error { return r.put("Update", t) }

func (r *recorder) Delete(c context.Context, id *url.URL) error {
	a := r.dbCall("Delete", []interface{}{us(id)}, func() answer {
		delete(r.w.Store, us(id))
		return answer{Kind: "ok"}
	})
	if a.Kind == "err" {
		return errInjected
	}
	return nil
}

func (r *recorder) NewID(c context.Context, t vocab.Type) (*url.URL, error) {
	// NewID is id generation: it is recorded like a Database call but needs no lock
	m := ser(t)
	a := r.dbCall("NewID", []interface{}{m}, func() answer {
		r.newIDs++
		return answer{Kind: "iri", S: fmt.Sprintf("%s/%d", r.w.NewIDBase, r.newIDs)}
	})
	if a.Kind == "err" {
		return nil, errInjected
	}
	return mustURL(a.S), nil
}

func (r *recorder) col(op string, cols map[string]jmap, actor *url.URL) (vocab.ActivityStreamsCollection, error) {
	a := r.dbCall(op, []interface{}{us(actor)}, func() answer {
		m, ok := cols[us(actor)]
		if !ok {
			m = jmap{"type": "Collection", "id": us(actor) + "/" + strings.ToLower(op)}
			cols[us(actor)] = deepCopy(m)
		}
		return answer{Kind: "json", J: deepCopy(m)}
	})
	if a.Kind == "err" {
		return nil, errInjected
	}
	t, err := toTyped(a.J.(jmap))
	if err != nil {
		return nil, err
	}
	return t.(vocab.ActivityStreamsCollection), nil
}
func (r *recorder) Followers(c context.Context, a *url.URL) (vocab.ActivityStreamsCollection, error) {
	return r.col("Followers", r.w.Followers, a)
}
func (r *recorder) Following(c context.Context, a *url.URL) (vocab.ActivityStreamsCollection, error) {
	return r.col("Following", r.w.Following, a)
}
func (r *recorder) Liked(c context.Context, a *url.URL) (vocab.ActivityStreamsCollection, error) {
	return r.col("Liked", r.w.Liked, a)
}

// ---------------------------------------------------------------- Transport

type recTransport struct{ r *recorder }

func (r *recorder) NewTransport(c context.Context, box *url.URL, agent string) (pub.Transport, error) {
	r.yield("NewTransport")
	if r.fail() {
		r.rec(entry{Kind: "newtransport", Name: us(box), Ans: answer{Kind: "err"}})
		return nil, errInjected
	}
	r.rec(entry{Kind: "newtransport", Name: us(box), Ans: answer{Kind: "ok"}})
	return &recTransport{r}, nil
}

func (t *recTransport) Dereference(c context.Context, iri *url.URL) ([]byte, error) {
	r := t.r
	r.yield("Dereference")
	if r.fail() {
		r.rec(entry{Kind: "deref", Name: us(iri), Ans: answer{Kind: "err"}})
		return nil, errInjected
	}
	d, ok := r.w.Remote[us(iri)]
	if !ok || d.Kind == "unreachable" {
		r.rec(entry{Kind: "deref", Name: us(iri), Ans: answer{Kind: "err"}})
		return nil, errors.New("unreachable")
	}
	if d.Kind == "notjson" {
		r.rec(entry{Kind: "deref", Name: us(iri), Ans: answer{Kind: "notjson"}})
		return []byte(d.Raw), nil
	}
	b, _ := json.Marshal(d.Doc)
	r.rec(entry{Kind: "deref", Name: us(iri), Ans: answer{Kind: "json", J: deepCopy(d.Doc)}})
	return b, nil
}

func (t *recTransport) Deliver(c context.Context, b []byte, to *url.URL) error {
	return t.BatchDeliver(c, b, []*url.URL{to})
}

func (t *recTransport) BatchDeliver(c context.Context, b []byte, rcpts []*url.URL) error {
	r := t.r
	r.yield("BatchDeliver")
	var m jmap
	_ = json.Unmarshal(b, &m)
	delete(m, "@context")
	var rs []string
	for _, u := range rcpts {
		rs = append(rs, us(u))
	}
	a := answer{Kind: "ok"}
	if r.fail() {
		a = answer{Kind: "err"}
	}
	r.rec(entry{Kind: "batch", Args: []interface{}{m}, Strs: rs, Ans: a})
	if a.Kind == "err" {
		return errInjected
	}
	return nil
}

// ---------------------------------------------------------------- application callbacks

func (r *recorder) appCall(name string, args []interface{}, f func() answer) answer {
	r.yield(name)
	var a answer
	if r.fail() {
		a = answer{Kind: "err"}
	} else {
		a = f()
	}
	r.rec(entry{Kind: "app", Name: name, Args: args, Ans: a})
	return a
}

func (r *recorder) authenticate(name string, c context.Context) (context.Context, bool, error) {
	a := r.appCall(name, nil, func() answer {
		switch r.cfg.Auth {
		case "denied":
			return answer{Kind: "bool", B: false}
		case "error", "errortrue":
			return answer{Kind: "err"}
		}
		return answer{Kind: "bool", B: true}
	})
	if a.Kind == "err" {
		return c, r.cfg.Auth == "errortrue", errInjected // the boolean is to be ignored when an error is returned
	}
	return c, a.B, nil
}

func (r *recorder) AuthenticateGetInbox(c context.Context, w http.ResponseWriter, q *http.Request) (context.Context, bool, error) {
	return r.authenticate("AuthenticateGetInbox", c)
}
func (r *recorder) AuthenticateGetOutbox(c context.Context, w http.ResponseWriter, q *http.Request) (context.Context, bool, error) {
	return r.authenticate("AuthenticateGetOutbox", c)
}
func (r *recorder) AuthenticatePostOutbox(c context.Context, w http.ResponseWriter, q *http.Request) (context.Context, bool, error) {
	return r.authenticate("AuthenticatePostOutbox", c)
}
func (r *recorder) AuthenticatePostInbox(c context.Context, w http.ResponseWriter, q *http.Request) (context.Context, bool, error) {
	return r.authenticate("AuthenticatePostInbox", c)
}

func (r *recorder) servePage(name string, pages map[string]jmap, q *http.Request) (vocab.ActivityStreamsOrderedCollectionPage, error) {
	a := r.appCall(name, nil, func() answer {
		id := "https://" + q.Host + q.URL.Path
		p, ok := pages[id]
		if !ok {
			p = jmap{"type": "OrderedCollectionPage", "id": id}
		}
		return answer{Kind: "json", J: deepCopy(p)}
	})
	if a.Kind == "err" {
		return nil, errInjected
	}
	t, err := toTyped(a.J.(jmap))
	if err != nil {
		return nil, err
	}
	return t.(vocab.ActivityStreamsOrderedCollectionPage), nil
}

// CommonBehavior.GetOutbox and FederatingProtocol.GetInbox (the request-level ones)
type commonImpl struct{ *recorder }

func (c commonImpl) GetOutbox(ctx context.Context, q *http.Request) (vocab.ActivityStreamsOrderedCollectionPage, error) {
	return c.recorder.servePage("GetOutbox", c.recorder.w.Outboxes, q)
}
func (c commonImpl) AuthenticateGetInbox(ctx context.Context, w http.ResponseWriter, q *http.Request) (context.Context, bool, error) {
	return c.recorder.authenticate("AuthenticateGetInbox", ctx)
}
func (c commonImpl) AuthenticateGetOutbox(ctx context.Context, w http.ResponseWriter, q *http.Request) (context.Context, bool, error) {
	return c.recorder.authenticate("AuthenticateGetOutbox", ctx)
}
func (c commonImpl) NewTransport(ctx context.Context, box *url.URL, agent string) (pub.Transport, error) {
	return c.recorder.NewTransport(ctx, box, agent)
}

type fedImpl struct{ *recorder }

func (f fedImpl) PostInboxRequestBodyHook(c context.Context, q *http.Request, a pub.Activity) (context.Context, error) {
	x := f.appCall("PostInboxRequestBodyHook", []interface{}{ser(a)}, func() answer { return answer{Kind: "ok"} })
	if x.Kind == "err" {
		return c, errInjected
	}
	return c, nil
}
func (f fedImpl) AuthenticatePostInbox(c context.Context, w http.ResponseWriter, q *http.Request) (context.Context, bool, error) {
	return f.authenticate("AuthenticatePostInbox", c)
}
func (f fedImpl) Blocked(c context.Context, iris []*url.URL) (bool, error) {
	f.yield("Blocked:entry") // the application looks at what it was handed only now: other requests may have run in between
	var l []interface{}
	for _, u := range iris {
		l = append(l, us(u))
	}
	if l == nil {
		l = []interface{}{}
	}
	x := f.appCall("Blocked", []interface{}{l}, func() answer {
		if f.cfg.BlockError {
			return answer{Kind: "err"}
		}
		for _, u := range iris {
			for _, b := range f.cfg.Blocked {
				if us(u) == b {
					return answer{Kind: "bool", B: true}
				}
			}
		}
		return answer{Kind: "bool", B: false}
	})
	if x.Kind == "err" {
		return f.cfg.BlockErrorTrue, errInjected
	}
	return x.B, nil
}

func has(l []string, s string) bool {
	for _, x := range l {
		if x == s {
			return true
		}
	}
	return false
}

func (r *recorder) wrappedCb(name string, t vocab.Type) error {
	x := r.appCall("Wrapped:"+name, []interface{}{ser(t)}, func() answer { return answer{Kind: "ok"} })
	if x.Kind == "err" {
		return errInjected
	}
	return nil
}
func (r *recorder) otherCb(name string, t vocab.Type) error {
	x := r.appCall("Other:"+name, []interface{}{ser(t)}, func() answer { return answer{Kind: "ok"} })
	if x.Kind == "err" {
		return errInjected
	}
	return nil
}

func (f fedImpl) FederatingCallbacks(c context.Context) (pub.FederatingWrappedCallbacks, []interface{}, error) {
	x := f.appCall("FederatingCallbacks", nil, func() answer { return answer{Kind: "ok"} })
	var w pub.FederatingWrappedCallbacks
	if x.Kind == "err" {
		return w, nil, errInjected
	}
	r := f.recorder
	w.OnFollow = pub.OnFollowBehavior(r.cfg.OnFollow)
	for _, n := range r.cfg.FedWrapped {
		switch n {
		case "Create":
			w.Create = func(c context.Context, a vocab.ActivityStreamsCreate) error { return r.wrappedCb("Create", a) }
		case "Update":
			w.Update = func(c context.Context, a vocab.ActivityStreamsUpdate) error { return r.wrappedCb("Update", a) }
		case "Delete":
			w.Delete = func(c context.Context, a vocab.ActivityStreamsDelete) error { return r.wrappedCb("Delete", a) }
		case "Follow":
			w.Follow = func(c context.Context, a vocab.ActivityStreamsFollow) error { return r.wrappedCb("Follow", a) }
		case "Accept":
			w.Accept = func(c context.Context, a vocab.ActivityStreamsAccept) error { return r.wrappedCb("Accept", a) }
		case "Reject":
			w.Reject = func(c context.Context, a vocab.ActivityStreamsReject) error { return r.wrappedCb("Reject", a) }
		case "Add":
			w.Add = func(c context.Context, a vocab.ActivityStreamsAdd) error { return r.wrappedCb("Add", a) }
		case "Remove":
			w.Remove = func(c context.Context, a vocab.ActivityStreamsRemove) error { return r.wrappedCb("Remove", a) }
		case "Like":
			w.Like = func(c context.Context, a vocab.ActivityStreamsLike) error { return r.wrappedCb("Like", a) }
		case "Announce":
			w.Announce = func(c context.Context, a vocab.ActivityStreamsAnnounce) error { return r.wrappedCb("Announce", a) }
		case "Undo":
			w.Undo = func(c context.Context, a vocab.ActivityStreamsUndo) error { return r.wrappedCb("Undo", a) }
		case "Block":
			w.Block = func(c context.Context, a vocab.ActivityStreamsBlock) error { return r.wrappedCb("Block", a) }
		}
	}
	return w, r.others(r.cfg.FedOther), nil
}

// others builds the application's "other" callbacks for the listed types.
func (r *recorder) others(names []string) []interface{} {
	var out []interface{}
	for _, n := range names {
		n := n
		switch n {
		case "Create":
			out = append(out, func(c context.Context, a vocab.ActivityStreamsCreate) error { return r.otherCb(n, a) })
		case "Update":
			out = append(out, func(c context.Context, a vocab.ActivityStreamsUpdate) error { return r.otherCb(n, a) })
		case "Delete":
			out = append(out, func(c context.Context, a vocab.ActivityStreamsDelete) error { return r.otherCb(n, a) })
		case "Follow":
			out = append(out, func(c context.Context, a vocab.ActivityStreamsFollow) error { return r.otherCb(n, a) })
		case "Accept":
			out = append(out, func(c context.Context, a vocab.ActivityStreamsAccept) error { return r.otherCb(n, a) })
		case "Reject":
			out = append(out, func(c context.Context, a vocab.ActivityStreamsReject) error { return r.otherCb(n, a) })
		case "Add":
			out = append(out, func(c context.Context, a vocab.ActivityStreamsAdd) error { return r.otherCb(n, a) })
		case "Remove":
			out = append(out, func(c context.Context, a vocab.ActivityStreamsRemove) error { return r.otherCb(n, a) })
		case "Like":
			out = append(out, func(c context.Context, a vocab.ActivityStreamsLike) error { return r.otherCb(n, a) })
		case "Announce":
			out = append(out, func(c context.Context, a vocab.ActivityStreamsAnnounce) error { return r.otherCb(n, a) })
		case "Undo":
			out = append(out, func(c context.Context, a vocab.ActivityStreamsUndo) error { return r.otherCb(n, a) })
		case "Block":
			out = append(out, func(c context.Context, a vocab.ActivityStreamsBlock) error { return r.otherCb(n, a) })
		case "Travel":
			out = append(out, func(c context.Context, a vocab.ActivityStreamsTravel) error { return r.otherCb(n, a) })
		case "Listen":
			out = append(out, func(c context.Context, a vocab.ActivityStreamsListen) error { return r.otherCb(n, a) })
		}
	}
	return out
}

func (r *recorder) DefaultCallback(c context.Context, a pub.Activity) error {
	x := r.appCall("DefaultCallback", []interface{}{ser(a)}, func() answer { return answer{Kind: "ok"} })
	if x.Kind == "err" {
		return errInjected
	}
	return nil
}

func (f fedImpl) MaxInboxForwardingRecursionDepth(c context.Context) int {
	f.yield("MaxInboxForwardingRecursionDepth")
	f.rec(entry{Kind: "app", Name: "MaxInboxForwardingRecursionDepth", Ans: answer{Kind: "nat", N: f.cfg.MaxForwarding}})
	return f.cfg.MaxForwarding
}
func (f fedImpl) MaxDeliveryRecursionDepth(c context.Context) int {
	f.yield("MaxDeliveryRecursionDepth")
	f.rec(entry{Kind: "app", Name: "MaxDeliveryRecursionDepth", Ans: answer{Kind: "nat", N: f.cfg.MaxDelivery}})
	return f.cfg.MaxDelivery
}
func (f fedImpl) FilterForwarding(c context.Context, potential []*url.URL, a pub.Activity) ([]*url.URL, error) {
	var l []interface{}
	for _, u := range potential {
		l = append(l, us(u))
	}
	if l == nil {
		l = []interface{}{}
	}
	x := f.appCall("FilterForwarding", []interface{}{l, ser(a)}, func() answer {
		var out []string
		switch f.cfg.Filter {
		case "none":
		case "first":
			if len(potential) > 0 {
				out = append(out, us(potential[0]))
			}
		default:
			for _, u := range potential {
				out = append(out, us(u))
			}
		}
		return answer{Kind: "iris", L: out}
	})
	if x.Kind == "err" {
		return nil, errInjected
	}
	var out []*url.URL
	for _, s := range x.L {
		out = append(out, mustURL(s))
	}
	return out, nil
}
func (f fedImpl) GetInbox(c context.Context, q *http.Request) (vocab.ActivityStreamsOrderedCollectionPage, error) {
	return f.recorder.servePage("GetInbox", f.recorder.w.Inboxes, q)
}
func (f fedImpl) DefaultCallback(c context.Context, a pub.Activity) error {
	return f.recorder.DefaultCallback(c, a)
}

type socImpl struct{ *recorder }

func (s socImpl) PostOutboxRequestBodyHook(c context.Context, q *http.Request, data vocab.Type) (context.Context, error) {
	x := s.appCall("PostOutboxRequestBodyHook", []interface{}{ser(data)}, func() answer { return answer{Kind: "ok"} })
	if x.Kind == "err" {
		return c, errInjected
	}
	return c, nil
}
func (s socImpl) AuthenticatePostOutbox(c context.Context, w http.ResponseWriter, q *http.Request) (context.Context, bool, error) {
	return s.authenticate("AuthenticatePostOutbox", c)
}
func (s socImpl) DefaultCallback(c context.Context, a pub.Activity) error {
	return s.recorder.DefaultCallback(c, a)
}
func (s socImpl) SocialCallbacks(c context.Context) (pub.SocialWrappedCallbacks, []interface{}, error) {
	x := s.appCall("SocialCallbacks", nil, func() answer { return answer{Kind: "ok"} })
	var w pub.SocialWrappedCallbacks
	if x.Kind == "err" {
		return w, nil, errInjected
	}
	r := s.recorder
	for _, n := range r.cfg.SocWrapped {
		switch n {
		case "Create":
			w.Create = func(c context.Context, a vocab.ActivityStreamsCreate) error { return r.wrappedCb("Create", a) }
		case "Update":
			w.Update = func(c context.Context, a vocab.ActivityStreamsUpdate) error { return r.wrappedCb("Update", a) }
		case "Delete":
			w.Delete = func(c context.Context, a vocab.ActivityStreamsDelete) error { return r.wrappedCb("Delete", a) }
		case "Follow":
			w.Follow = func(c context.Context, a vocab.ActivityStreamsFollow) error { return r.wrappedCb("Follow", a) }
		case "Add":
			w.Add = func(c context.Context, a vocab.ActivityStreamsAdd) error { return r.wrappedCb("Add", a) }
		case "Remove":
			w.Remove = func(c context.Context, a vocab.ActivityStreamsRemove) error { return r.wrappedCb("Remove", a) }
		case "Like":
			w.Like = func(c context.Context, a vocab.ActivityStreamsLike) error { return r.wrappedCb("Like", a) }
		case "Undo":
			w.Undo = func(c context.Context, a vocab.ActivityStreamsUndo) error { return r.wrappedCb("Undo", a) }
		case "Block":
			w.Block = func(c context.Context, a vocab.ActivityStreamsBlock) error { return r.wrappedCb("Block", a) }
		}
	}
	return w, r.others(r.cfg.SocOther), nil
}

// ---------------------------------------------------------------- Clock, ResponseWriter

func (r *recorder) Now() time.Time {
	r.yield("Now")
	r.rec(entry{Kind: "now", Ans: answer{Kind: "z", Z: r.w.Clock}})
	return time.Unix(r.w.Clock, r.w.ClockNanos).UTC()
}

type recWriter struct {
	r         *recorder
	h         http.Header
	pre       http.Header // what the application had put into the header map before the library was called
	Status    []int
	Bodies    [][]byte
	digestIdx int
}

const digestPlaceholder = "SHA-256=<base64 sha256 of the body written>"

// prePopulate: the application (or a mux in front) has already set headers of its own - stale values of the three the
// library writes and one it never touches.
func (w *recWriter) prePopulate() {
	w.h.Set("Content-Type", "text/html; charset=stale")
	w.h.Set("Date", "Thu, 01 Jan 1970 00:00:00 GMT")
	w.h.Set("Digest", "SHA-256=stale")
	w.h.Set("X-Application", "kept")
	w.pre = w.h.Clone()
}

func (w *recWriter) Header() http.Header { return w.h }

// flushHeaders records every header whose values are not the ones the application had put there; a header with several
// values is recorded with all of them (the first one is what a client reads).
func (w *recWriter) flushHeaders() {
	keys := []string{"Content-Type", "Date", "Digest", "Location"}
	var extra []string
	for k := range w.h {
		if !has(keys, k) {
			extra = append(extra, k)
		}
	}
	sort.Strings(extra)
	for _, k := range append(keys, extra...) {
		vs := w.h.Values(k)
		if len(vs) == 0 || (w.pre != nil && strings.Join(vs, "\x00") == strings.Join(w.pre.Values(k), "\x00")) {
			continue
		}
		if k == "Digest" {
			w.digestIdx = len(w.r.trace)
		}
		w.r.rec(entry{Kind: "setheader", Name: k, Strs: []string{strings.Join(vs, " | ")}, Ans: answer{Kind: "ok"}})
		if w.pre == nil {
			w.pre = http.Header{}
		}
		w.pre[k] = append([]string{}, vs...)
	}
}

// finish: headers the library left in the map without writing a status are part of what it did to the response
func (w *recWriter) finish() { w.flushHeaders() }
func (w *recWriter) WriteHeader(code int) {
	w.flushHeaders()
	w.Status = append(w.Status, code)
	w.r.rec(entry{Kind: "writeheader", Num: code, Ans: answer{Kind: "ok"}})
}
func (w *recWriter) Write(b []byte) (int, error) {
	w.flushHeaders()
	w.Bodies = append(w.Bodies, append([]byte{}, b...))
	if w.digestIdx >= 0 && w.digestIdx < len(w.r.trace) && w.r.trace[w.digestIdx].Name == "Digest" {
		sum := sha256.Sum256(b)
		if w.r.trace[w.digestIdx].Strs[0] == "SHA-256="+base64.StdEncoding.EncodeToString(sum[:]) {
			w.r.trace[w.digestIdx].Strs[0] = digestPlaceholder
		}
	}
	var m jmap
	if err := json.Unmarshal(b, &m); err == nil {
		delete(m, "@context")
		w.r.rec(entry{Kind: "write", Args: []interface{}{m}, Ans: answer{Kind: "ok"}})
	} else {
		w.r.rec(entry{Kind: "write", Args: []interface{}{string(b)}, Ans: answer{Kind: "ok"}})
	}
	return len(b), nil
}

// relockNeverReturns is set by the C11 harness: every recorder then treats a re-taken lock as a request that never returns.
var relockNeverReturns bool

func newRecorder(w *world, cfg *config, faults []int) *recorder {
	r := &recorder{w: w, cfg: cfg, faults: map[int]bool{}, held: map[string]int{}, relockNeverReturns: relockNeverReturns}
	for _, f := range faults {
		r.faults[f] = true
	}
	return r
}

// yield hands control to the deterministic scheduler (C08); a no-op otherwise.
func (r *recorder) yield(what string) {
	if r.sched != nil {
		r.sched.yield(r.tid, what)
	}
}

// buildActor constructs the Actor the way an application would.
func buildActor(r *recorder) pub.FederatingActor {
	switch {
	case r.cfg.Social && r.cfg.Federating:
		return pub.NewActor(commonImpl{r}, socImpl{r}, fedImpl{r}, r, r)
	case r.cfg.Federating:
		return pub.NewFederatingActor(commonImpl{r}, fedImpl{r}, r, r)
	case r.cfg.Social:
		a := pub.NewSocialActor(commonImpl{r}, socImpl{r}, r, r)
		return socialOnly{a}
	default:
		return socialOnly{pub.NewCustomActor(bareDelegate{r: r}, false, false, r)}
	}
}

// bareDelegate: the delegate of an actor with both protocols off.  Nothing of it may be consulted for a POST (405); the two
// authentication methods record the call, anything else is a nil dereference.
type bareDelegate struct {
	pub.DelegateActor
	r *recorder
}

func (d bareDelegate) AuthenticatePostInbox(c context.Context, w http.ResponseWriter, q *http.Request) (context.Context, bool, error) {
	return d.r.authenticate("AuthenticatePostInbox", c)
}
func (d bareDelegate) AuthenticatePostOutbox(c context.Context, w http.ResponseWriter, q *http.Request) (context.Context, bool, error) {
	return d.r.authenticate("AuthenticatePostOutbox", c)
}

// socialOnly adapts an Actor to FederatingActor for uniform handling (Send is not available).
type socialOnly struct{ pub.Actor }

func (s socialOnly) Send(c context.Context, outbox *url.URL, t vocab.Type) (pub.Activity, error) {
	return nil, errors.New("Send not available on a Social-only actor")
}
