package main

import (
	"context"
	"errors"
	"fmt"
	"strings"

	"github.com/go-fed/activity/streams"
	"github.com/go-fed/activity/streams/vocab"
)

var errCb = errors.New("callback error (harness)")

type fakeType struct {
	vocab.Type
	name, uri string
}

func (f fakeType) GetTypeName() string   { return f.name }
func (f fakeType) VocabularyURI() string { return f.uri }

type c14case struct {
	kind  string // type | pred | json
	uri   string
	tss   []string // type strings (json) or [name]
	cbs   []string // struct names; "" = wrong shape
	pred  string
	pass  bool
	alias map[string]string // uri -> alias (json)
	// observed
	ctorErr bool
	log     []int
	err     string
}

func errClass(err error, cbRet error, invoked bool) string {
	switch {
	case invoked && err == cbRet:
		return "cbret"
	case err == nil:
		return "nil"
	case err == streams.ErrNoCallbackMatch:
		return "ErrNoCallbackMatch"
	case err == streams.ErrUnhandledType:
		return "ErrUnhandledType"
	case err == streams.ErrPredicateUnmatched:
		return "ErrPredicateUnmatched"
	}
	return "other"
}

func rowByStruct(s string) *hierRow {
	for i := range hierRows {
		if hierRows[i].Struct == s {
			return &hierRows[i]
		}
	}
	return nil
}

// a named function type has the right structure but is not the type the resolvers look for: accepted nowhere
type namedNoteCallback func(context.Context, vocab.ActivityStreamsNote) error
type namedNotePredicate func(context.Context, vocab.ActivityStreamsNote) (bool, error)

var wrongShapes = []interface{}{
	namedNoteCallback(func(context.Context, vocab.ActivityStreamsNote) error { return nil }),
	nil, 42, "x", func() {}, func(context.Context) error { return nil },
	func(vocab.ActivityStreamsNote) error { return nil },
	func(context.Context, vocab.ActivityStreamsNote) {},
	func(context.Context, vocab.ActivityStreamsNote) (bool, error) { return true, nil },
	func(context.Context, vocab.Type) error { return nil },
	func(context.Context, *vocab.ActivityStreamsNote) error { return nil },
	func(context.Context, vocab.ActivityStreamsNote, int) error { return nil },
	func(int, vocab.ActivityStreamsNote) error { return nil },
	func(context.Context, interface{}) error { return nil },
	func(context.Context, vocab.ActivityStreamsNameProperty) error { return nil },
	[]interface{}{},
}

func runCase(c *c14case, r *rng) {
	ctx := context.Background()
	if r.chance(1, 3) { // dispatch does not depend on the context: one that is already done changes nothing
		cctx, cancel := context.WithCancel(ctx)
		cancel()
		ctx = cctx
	}
	var names []string
	rets := make([]error, len(c.cbs))
	var cbs []interface{}
	for i, s := range c.cbs {
		if r.chance(1, 2) {
			rets[i] = errCb
		}
		if s == "" {
			cbs = append(cbs, wrongShapes[r.intn(len(wrongShapes))])
			continue
		}
		tag := fmt.Sprintf("%d", i)
		row := rowByStruct(s)
		cbs = append(cbs, row.CbTag(&names, tag, rets[i]))
	}
	finish := func(err error) {
		invoked := false
		var ret error
		for _, n := range names {
			// entries are "<idx>/<cbtype>/<valuetype>" or "P/<cbtype>/<valuetype>"
			parts := strings.SplitN(n, "/", 3)
			if parts[0] == "P" {
				c.log = append(c.log, 50)
				continue
			}
			var k int
			fmt.Sscanf(parts[0], "%d", &k)
			c.log = append(c.log, k)
			invoked = true
			ret = rets[k]
			if parts[1] != parts[2] {
				// callback received a value of another type: report via log marker
				c.log = append(c.log, 60+k)
			}
		}
		c.err = errClass(err, ret, invoked)
	}
	switch c.kind {
	case "type":
		res, err := streams.NewTypeResolver(cbs...)
		if err != nil {
			c.ctorErr = true
			return
		}
		finish(res.Resolve(ctx, valueFor(c.uri, c.tss[0])))
	case "pred":
		del, err := streams.NewTypeResolver(cbs...)
		if err != nil {
			c.ctorErr = true
			return
		}
		var pred interface{}
		if c.pred == "" {
			// shape 8 is a legal predicate; a plain callback signature is not
			ws := append(append([]interface{}{}, wrongShapes[:8]...), wrongShapes[9:]...)
			ws = append(ws, namedNotePredicate(func(context.Context, vocab.ActivityStreamsNote) (bool, error) { return true, nil }))
			ws = append(ws, func(context.Context, vocab.ActivityStreamsNote) error { return nil })
			pred = ws[r.intn(len(ws))]
		} else {
			pred = rowByStruct(c.pred).Pred(&names, c.pass, nil)
		}
		pr, err := streams.NewTypePredicatedResolver(del, pred)
		if err != nil {
			c.ctorErr = true
			return
		}
		applied, err := pr.Apply(ctx, valueFor(c.uri, c.tss[0]))
		finish(err)
		if applied {
			c.log = append(c.log, 51)
		}
	case "json":
		res, err := streams.NewJSONResolver(cbs...)
		if err != nil {
			c.ctorErr = true
			return
		}
		m := map[string]interface{}{}
		if len(c.alias) == 0 {
			m["@context"] = "https://www.w3.org/ns/activitystreams"
			if c.uri != "" {
				m["@context"] = []interface{}{"https://www.w3.org/ns/activitystreams", c.uri}
			}
		} else {
			am := map[string]interface{}{}
			for u, a := range c.alias {
				am[u] = a
			}
			m["@context"] = []interface{}{am}
		}
		if len(c.tss) == 1 {
			m["type"] = c.tss[0]
		} else {
			var l []interface{}
			for _, t := range c.tss {
				l = append(l, t)
			}
			m["type"] = l
		}
		m["id"] = "https://example.org/x"
		finish(res.Resolve(ctx, m))
	}
}

func valueFor(uri, name string) streams.ActivityStreamsInterface {
	for _, h := range hierRows {
		v := h.New()
		if v.GetTypeName() == name && v.VocabularyURI() == uri {
			return v.(streams.ActivityStreamsInterface)
		}
	}
	return fakeType{Type: hierRows[0].New(), name: name, uri: uri}
}

func coqList(l []string) string {
	q := make([]string, len(l))
	for i, s := range l {
		q[i] = coqStr(s)
	}
	return "[" + strings.Join(q, "; ") + "]"
}

func coqNats(l []int) string {
	q := make([]string, len(l))
	for i, n := range l {
		q[i] = fmt.Sprintf("%d", n)
	}
	return "[" + strings.Join(q, "; ") + "]"
}

func runC14() {
	r := &rng{s: *seed}
	var cases []*c14case
	uriOf := func(h hierRow) string { return h.New().VocabularyURI() }
	// 1-3: exhaustive (value type, callback type) for each resolver
	for _, v := range hierRows {
		for _, c := range hierRows {
			cases = append(cases, &c14case{kind: "type", uri: uriOf(v), tss: []string{v.Name}, cbs: []string{c.Struct}})
			cases = append(cases, &c14case{kind: "pred", uri: uriOf(v), tss: []string{v.Name}, cbs: []string{v.Struct}, pred: c.Struct, pass: true})
			cases = append(cases, &c14case{kind: "json", uri: uriOf(v), tss: []string{v.Name}, cbs: []string{c.Struct}})
		}
	}
	nEx := len(cases)
	nRand := 400
	if *tier == "thorough" {
		nRand = 4000
	}
	pick := func() hierRow { return hierRows[r.intn(len(hierRows))] }
	for i := 0; i < nRand; i++ {
		v := pick()
		n := r.intn(9)
		var cbs []string
		for j := 0; j < n; j++ {
			switch {
			case r.chance(1, 4):
				cbs = append(cbs, v.Struct) // the matching one, possibly duplicated
			case r.chance(1, 25):
				cbs = append(cbs, "") // wrong shape
			default:
				cbs = append(cbs, pick().Struct)
			}
		}
		kind := []string{"type", "pred", "json"}[r.intn(3)]
		c := &c14case{kind: kind, uri: uriOf(v), tss: []string{v.Name}, cbs: cbs}
		switch kind {
		case "pred":
			c.pass = r.chance(2, 3)
			if r.chance(1, 2) {
				c.pred = v.Struct
			} else if r.chance(1, 20) {
				c.pred = ""
			} else {
				c.pred = pick().Struct
			}
		case "json":
			if r.chance(1, 3) { // multi-valued type
				k := 2 + r.intn(2)
				c.tss = nil
				for j := 0; j < k; j++ {
					if r.chance(1, 3) {
						c.tss = append(c.tss, "Unknown"+fmt.Sprint(r.intn(5)))
					} else {
						c.tss = append(c.tss, pick().Name)
					}
				}
			}
			if r.chance(1, 5) { // aliased vocabulary (the map form the code honours)
				c.alias = map[string]string{uriOf(v): "x"}
				for j := range c.tss {
					if vv := valueFor(uriOf(v), c.tss[j]); vv.VocabularyURI() == uriOf(v) && vv.GetTypeName() == c.tss[j] {
						if _, fake := vv.(fakeType); !fake {
							c.tss[j] = "x:" + c.tss[j]
						}
					}
				}
			}
		}
		if r.chance(1, 10) { // unknown type
			c.tss = []string{[]string{"Nope", "note", "Notes", "", "Object2"}[r.intn(5)]}
			if r.chance(1, 2) {
				c.uri = "https://example.org/ns"
			}
		} else if kind != "json" && r.chance(1, 15) { // right name, wrong vocabulary
			c.uri = "https://example.org/ns"
		}
		cases = append(cases, c)
	}
	// constructor with every wrong shape alone
	for range wrongShapes {
		cases = append(cases, &c14case{kind: "type", uri: uriOf(hierRows[0]), tss: []string{hierRows[0].Name}, cbs: []string{""}})
	}
	s := &Summary{Rule: "exhaustive (value type x callback type) for TypeResolver, TypePredicatedResolver, JSONResolver; random callback lists 0..8 with duplicates/wrong shapes, type arrays, unknown names, aliased contexts; non-trivial = a callback of another type precedes the matching one, or the list has a duplicate, or no match", Dist: map[string]interface{}{}}
	kinds := map[string]int{}
	errs := map[string]int{}
	seen := map[string]bool{}
	var b strings.Builder
	dict := []string{}
	dictIdx := map[string]int{}
	d := func(x string) int {
		if i, ok := dictIdx[x]; ok {
			return i
		}
		dictIdx[x] = len(dict)
		dict = append(dict, x)
		return len(dict) - 1
	}
	dl := func(l []string) string {
		var q []int
		for _, x := range l {
			q = append(q, d(x))
		}
		return coqNats(q)
	}
	var mat strings.Builder
	obsCode := func(c *c14case) int {
		l := fmt.Sprint(c.log)
		switch {
		case c.ctorErr:
			return 8
		case l == "[0]" && c.err == "cbret":
			return 0
		case l == "[]" && c.err == "ErrNoCallbackMatch":
			return 1
		case l == "[]" && c.err == "ErrUnhandledType":
			return 2
		case l == "[]" && c.err == "ErrPredicateUnmatched":
			return 3
		case l == "[50 0 51]" && c.err == "cbret":
			return 4
		case l == "[50]" && c.err == "nil":
			return 5
		case l == "[50 51]" && c.err == "ErrNoCallbackMatch":
			return 6
		}
		return 9
	}
	// exhaustive part: one row per (kind, value type) holding one code per callback type
	for ki, kind := range []string{"type", "pred", "json"} {
		for vi := range hierRows {
			var codes []int
			for ci := range hierRows {
				c := cases[(vi*len(hierRows)+ci)*3+ki]
				runCase(c, r)
				kinds[c.kind]++
				errs[c.err]++
				codes = append(codes, obsCode(c))
				s.Distinct++
			}
			if ki+vi > 0 {
				mat.WriteString(";\n")
			}
			fmt.Fprintf(&mat, " (%d, %d, %s)", d(kind), d(hierRows[vi].Struct), coqNats(codes))
		}
	}
	var structs []string
	for _, h := range hierRows {
		structs = append(structs, h.Struct)
	}
	first := true
	var randomCases []interface{}
	for i, c := range cases {
		if i < nEx {
			continue
		}
		runCase(c, r)
		kinds[c.kind]++
		errs[c.err]++
		var al []string
		for u, a := range c.alias {
			al = append(al, fmt.Sprintf("(%d, %d)", d(u), d(a+":")))
		}
		if !first {
			b.WriteString(";\n")
		}
		first = false
		fmt.Fprintf(&b, " (%d, %d, %s, %s, %d, %s, [%s], (%s, %s, %d))", d(c.kind), d(c.uri), dl(c.tss), dl(c.cbs), d(c.pred), coqBool(c.pass), strings.Join(al, "; "), coqBool(c.ctorErr), coqNats(c.log), d(c.err))
		key := fmt.Sprint(c.kind, c.uri, c.tss, c.cbs, c.pred, c.pass, c.alias)
		nontrivial := len(c.cbs) > 1 || c.err != "cbret"
		if !seen[key] && nontrivial {
			seen[key] = true
			s.Distinct++
		}
		randomCases = append(randomCases, map[string]interface{}{"kind": c.kind, "uri": c.uri, "types": c.tss, "callbacks": c.cbs, "pred": c.pred, "pass": c.pass, "alias": c.alias, "ctor_err": c.ctorErr, "log": c.log, "err": c.err})
		if i >= nEx && len(s.Samples) < 6 {
			s.Samples = append(s.Samples, map[string]interface{}{"kind": c.kind, "uri": c.uri, "types": c.tss, "callbacks": c.cbs, "pred": c.pred, "pass": c.pass, "ctor_err": c.ctorErr, "log": c.log, "err": c.err})
		}
	}
	body := b.String()
	structsList := dl(structs)
	b.Reset()
	b.WriteString("From Coq Require Import String List.\nImport ListNotations.\nOpen Scope string_scope.\n")
	b.WriteString("(* strings are referred to by their index in dict *)\n")
	fmt.Fprintf(&b, "Definition dict : list string := %s.\n", coqList(dict))
	b.WriteString("(* (kind, uri, type strings, callbacks, predicate, pass, aliases, (ctor_err, log, err)) *)\n")
	b.WriteString("Definition observed_raw : list (nat * nat * list nat * list nat * nat * bool * list (nat * nat) * (bool * list nat * nat)) := [\n")
	b.WriteString(body)
	b.WriteString("\n].\n")
	fmt.Fprintf(&b, "(* exhaustive part: (kind, value struct, code per callback struct in the order of ex_structs) *)\nDefinition ex_structs : list nat := %s.\n", structsList)
	b.WriteString("Definition observed_matrix : list (nat * nat * list nat) := [\n")
	b.WriteString(mat.String())
	b.WriteString("\n].\n")
	writeFile("observed.v", []byte(b.String()))
	s.Evaluations = len(cases)
	s.Dist["kinds"] = kinds
	s.Dist["error_classes"] = errs
	s.Dist["exhaustive_pairs"] = nEx
	s.Dist["random"] = nRand
	s.Extra = map[string]interface{}{"random_cases": randomCases}
	c14Reuse(r, s)
	writeSummary(s)
}

// c14Reuse: a resolver that is used for several values answers each time as a fresh resolver built from the same callbacks
// would (the first matching callback in registration order, nothing else): lists with duplicates, three values in a row.
func c14Reuse(r *rng, s *Summary) {
	ctx := context.Background()
	var pool []hierRow
	for _, h := range hierRows {
		switch h.Name {
		case "Note", "Person", "Create", "Like", "Collection":
			pool = append(pool, h)
		}
	}
	if len(pool) == 0 {
		return
	}
	n := 0
	for it := 0; it < 80; it++ {
		k := 3 + r.intn(4)
		var rows []hierRow
		for j := 0; j < k; j++ {
			rows = append(rows, pool[r.intn(len(pool))])
		}
		mk := func(log *[]string) []interface{} {
			var cbs []interface{}
			for i, row := range rows {
				cbs = append(cbs, row.CbTag(log, fmt.Sprint(i), nil))
			}
			return cbs
		}
		var seq []hierRow
		for j := 0; j < 3; j++ {
			seq = append(seq, pool[r.intn(len(pool))])
		}
		doc := func(v hierRow) map[string]interface{} {
			return map[string]interface{}{"@context": "https://www.w3.org/ns/activitystreams", "type": v.Name, "id": "https://example.org/reuse"}
		}
		for _, kind := range []string{"type", "json"} {
			resolve := func(cbs []interface{}) func(v hierRow) error {
				if kind == "type" {
					res, err := streams.NewTypeResolver(cbs...)
					if err != nil {
						return nil
					}
					return func(v hierRow) error { return res.Resolve(ctx, valueFor(v.New().VocabularyURI(), v.Name)) }
				}
				res, err := streams.NewJSONResolver(cbs...)
				if err != nil {
					return nil
				}
				return func(v hierRow) error { return res.Resolve(ctx, doc(v)) }
			}
			var logSame []string
			one := resolve(mk(&logSame))
			if one == nil {
				continue
			}
			var same, fresh, names []string
			for _, v := range seq {
				before := len(logSame)
				e := one(v)
				same = append(same, fmt.Sprint(logSame[before:], e))
				names = append(names, v.Name)
			}
			for _, v := range seq {
				var lg []string
				f := resolve(mk(&lg))
				e := f(v)
				fresh = append(fresh, fmt.Sprint(lg, e))
			}
			n++
			s.Evaluations++
			if fmt.Sprint(same) != fmt.Sprint(fresh) {
				var cbn []string
				for _, row := range rows {
					cbn = append(cbn, row.Name)
				}
				s.Violations = append(s.Violations, Violation{What: fmt.Sprintf("a %s resolver with callbacks %v, used for %v in turn, answers %v; a fresh resolver answers %v each time", kind, cbn, names, same, fresh),
					Sig: "C14:reuse:" + kind, Replay: map[string]interface{}{"resolver": kind, "callbacks": cbn, "values": names, "reused": same, "fresh": fresh}})
				return
			}
		}
	}
	s.Dist["resolvers_used_three_times"] = n
}
