package main

// C11: hostile input.  (1) grammar-based mutations of valid scenarios: each member at each depth of the request body,
// of a stored value or of a dereferenced document removed, nulled, emptied or replaced by a value of another kind;
// every run under recover() and a watchdog.  (2) the decoder alone on mutated / random documents.

import (
	"context"
	"encoding/json"
	"fmt"
	"sort"
	"strings"
	"time"

	"github.com/go-fed/activity/streams"
)

// paths lists every member position of a JSON value, depth first.
func jsonPaths(v interface{}, prefix []interface{}, out *[][]interface{}) {
	switch x := v.(type) {
	case map[string]interface{}:
		keys := make([]string, 0, len(x))
		for k := range x {
			keys = append(keys, k)
		}
		sort.Strings(keys)
		for _, k := range keys {
			p := append(append([]interface{}{}, prefix...), k)
			*out = append(*out, p)
			jsonPaths(x[k], p, out)
		}
	case []interface{}:
		for i := range x {
			p := append(append([]interface{}{}, prefix...), i)
			*out = append(*out, p)
			jsonPaths(x[i], p, out)
		}
	}
}

func replacements(r *rng) []interface{} {
	return []interface{}{nil, "", float64(5), true, []interface{}{}, []interface{}{nil}, map[string]interface{}{}, map[string]interface{}{"type": "Note"},
		map[string]interface{}{"type": "Person", "id": 7}, map[string]interface{}{"id": "https://remote.example/missing"},
		"https://remote.example/missing", "https://remote.example/illtyped", "https://remote.example/incomplete", "not an iri", []interface{}{[]interface{}{"https://remote.example/users/carol"}},
		map[string]interface{}{"type": []interface{}{"Note", "Person"}, "id": "https://remote.example/multi"}, float64(-1), "as:Public"}
}

// mutateAt returns a deep copy of v with the member at path removed (op 0) or replaced.
func mutateAt(v interface{}, path []interface{}, op int, repl interface{}) interface{} {
	b, _ := json.Marshal(v)
	var c interface{}
	_ = json.Unmarshal(b, &c)
	var rec func(cur interface{}, p []interface{}) interface{}
	rec = func(cur interface{}, p []interface{}) interface{} {
		if len(p) == 0 {
			return cur
		}
		switch x := cur.(type) {
		case map[string]interface{}:
			k := p[0].(string)
			if len(p) == 1 {
				if op == 0 {
					delete(x, k)
				} else {
					x[k] = repl
				}
			} else {
				x[k] = rec(x[k], p[1:])
			}
			return x
		case []interface{}:
			i := p[0].(int)
			if i >= len(x) {
				return x
			}
			if len(p) == 1 {
				if op == 0 {
					return append(x[:i], x[i+1:]...)
				}
				x[i] = repl
			} else {
				x[i] = rec(x[i], p[1:])
			}
			return x
		}
		return cur
	}
	return rec(c, path)
}

func asJmap(v interface{}) jmap {
	if m, ok := v.(map[string]interface{}); ok {
		return jmap(m)
	}
	return nil
}

// runWatched runs the scenario with a watchdog; a run that does not return is reported as "hang".
// c11Runaways counts runs that did not end (unbounded recursion / iteration in the library): after a few of them the
// defect is established and reported with its inputs; every further run of this kind would cost seconds.
var c11Runaways int

func runWatched(sc *scenario) runResult {
	if c11Runaways > 3 {
		return runResult{Result: "skipped", Handled: true}
	}
	// a fatal error of the Go runtime (stack overflow by unbounded recursion, concurrent map access) cannot be recovered:
	// leave the input on disk so that the check can report it
	if b, err := json.Marshal(map[string]interface{}{"entry": sc.Entry, "path": sc.Path, "family": sc.Family, "body": sc.Body, "send": sc.Send, "config": sc.Cfg, "world": sc.World}); err == nil {
		writeFile("current.json", b)
	}
	ch := make(chan runResult, 1)
	go func() { ch <- runScenario(sc) }()
	select {
	case res := <-ch:
		if strings.HasPrefix(res.PanicMsg, "runaway") {
			c11Runaways++
		}
		return res
	case <-time.After(20 * time.Second):
		c11Runaways++
		return runResult{Result: "hang", Handled: true, PanicMsg: "did not return within 20 s"}
	}
}

func hostileWorld(w *world) {
	w.Remote[remote+"/illtyped"] = remoteDoc{Kind: "doc", Doc: jmap{"@context": asCtx, "type": "Gizmo", "id": remote + "/illtyped"}}
	w.Remote[remote+"/incomplete"] = remoteDoc{Kind: "doc", Doc: jmap{"@context": asCtx, "type": "Person"}}
	w.Remote[remote+"/multi"] = remoteDoc{Kind: "doc", Doc: jmap{"@context": asCtx, "type": []interface{}{"Note", "Person"}, "id": remote + "/multi"}}
}

func runC11() {
	relockNeverReturns = true
	r := &rng{s: *seed}
	s := &Summary{Rule: "every inbox / outbox / GET scenario type with one member of the request body, of a stored value or of a dereferenced document removed / replaced by null, empty values, numbers, arrays, objects without id, IRIs of missing / ill-typed / incomplete documents; every run under recover and a watchdog; plus the decoder on mutated vocabulary documents and random byte strings", Dist: map[string]interface{}{}}
	var violations []Violation
	results := map[string]int{}
	where := map[string]int{}
	per := 3
	if *tier != "quick" {
		per = 40
	}
	seen := map[string]bool{}
	runaways := 0
	report := func(kind string, sc *scenario, res runResult, mut map[string]interface{}) {
		if strings.HasPrefix(res.PanicMsg, "runaway") || kind == "hang" {
			runaways++
		}
		sig := "C11:" + kind + ":" + sc.Family + ":" + firstLine(res.PanicMsg)
		if strings.HasPrefix(res.PanicMsg, "relock: Lock of ") { // a request that never returns under a lock that is not re-entrant
			id := strings.SplitN(strings.TrimPrefix(res.PanicMsg, "relock: Lock of "), " ", 2)[0]
			addressed := false
			for _, p := range []string{"to", "cc", "audience"} {
				if b, err := json.Marshal(sc.Body[p]); err == nil && strings.Contains(string(b), "\""+id+"\"") {
					addressed = true
				}
			}
			kind = "never-returns"
			sig = "C11:relock:" + sc.Family
			if addressed && sc.Entry == "postinbox" && sc.World != nil && sc.World.Owned[id] {
				sig = "C11:relock-forwarding-collection" // finding F2b seen from C11
			}
		}
		if len(sig) > 150 {
			sig = sig[:150]
		}
		if seen[sig] {
			return
		}
		seen[sig] = true
		violations = append(violations, Violation{What: kind + " in " + sc.Entry + " (" + sc.Family + "): " + firstLine(res.PanicMsg), Sig: sig,
			Replay: map[string]interface{}{"entry": sc.Entry, "path": sc.Path, "body": sc.Body, "send": sc.Send, "mutation": mut, "config": sc.Cfg, "panic": res.PanicMsg}})
	}
	var base []*scenario
	k := 0
	for _, ty := range inboxTypes {
		for i := 0; i < per; i++ {
			k++
			base = append(base, genInbox(r, ty, k))
		}
	}
	for _, ty := range outboxTypes {
		for i := 0; i < per; i++ {
			k++
			base = append(base, genOutbox(r, ty, k))
		}
	}
	for _, kind := range []string{"inbox", "outbox", "handler"} {
		for i := 0; i < per; i++ {
			k++
			base = append(base, genGet(r, kind, k))
		}
	}
	repl := replacements(r)
	for _, sc0 := range base {
		if runaways > 20 {
			break // unbounded recursion is established; every further run of this kind costs seconds
		}
		hostileWorld(sc0.World)
		// (a) the request body / Send value
		var target interface{} = map[string]interface{}(sc0.Body)
		isSend := false
		if sc0.Body == nil && sc0.Send != nil {
			target = map[string]interface{}(sc0.Send)
			isSend = true
		}
		if target != nil && len(target.(map[string]interface{})) > 0 {
			var paths [][]interface{}
			jsonPaths(target, nil, &paths)
			for _, p := range paths {
				ops := []int{0}
				n := 3
				if *tier != "quick" {
					n = len(repl)
				}
				for j := 0; j < n; j++ {
					ops = append(ops, 1+r.intn(len(repl)))
				}
				for _, op := range ops {
					var rv interface{}
					if op > 0 {
						rv = repl[op-1]
					}
					m := mutateAt(target, p, op, rv)
					sc := *sc0
					if isSend {
						jm := asJmap(m)
						if jm == nil {
							continue
						}
						if _, err := toTyped(jm); err != nil {
							continue // Send takes a typed value: the application cannot even build this one
						}
						sc.Send = jm
					} else {
						sc.Body = asJmap(m)
					}
					res := runWatched(&sc)
					results[res.Result]++
					where["body"]++
					s.Evaluations++
					if res.Result == "panic" || res.Result == "hang" {
						report(res.Result, &sc, res, map[string]interface{}{"where": "body", "path": p, "op": op, "replacement": rv})
					}
				}
			}
		}
		// (b) every stored value and dereferenced document the unmutated run touched
		if *tier == "quick" && r.chance(1, 2) && sc0.Method != "GET" {
			continue
		}
		ref := runWatched(sc0)
		touched := map[string]string{}
		for _, e := range ref.Trace {
			if e.Kind == "db" && len(e.Args) > 0 {
				if id, ok := e.Args[0].(string); ok {
					if _, has := sc0.World.Store[id]; has {
						touched[id] = "store"
					}
					for name, m := range map[string]map[string]jmap{"inboxes": sc0.World.Inboxes, "outboxes": sc0.World.Outboxes, "followers": sc0.World.Followers, "following": sc0.World.Following, "liked": sc0.World.Liked} {
						if _, has := m[id]; has {
							touched[id+" "+name] = name
						}
					}
				}
			}
			if e.Kind == "deref" {
				if d, has := sc0.World.Remote[e.Name]; has && d.Kind == "doc" {
					touched[e.Name] = "remote"
				}
			}
		}
		if sc0.Entry == "getinbox" || sc0.Entry == "getoutbox" { // the page the application serves (an application call, not a Database one)
			id := "https://" + host + sc0.Path
			name, pages := "inboxes", sc0.World.Inboxes
			if sc0.Entry == "getoutbox" {
				name, pages = "outboxes", sc0.World.Outboxes
			}
			if _, has := pages[id]; !has {
				pages[id] = jmap{"@context": asCtx, "type": "OrderedCollectionPage", "id": id}
			}
			touched[id+" "+name] = name
		}
		ids := make([]string, 0, len(touched))
		for id := range touched {
			ids = append(ids, id)
		}
		sort.Strings(ids)
		for _, id := range ids {
			var doc jmap
			coll := func(w *world, name string) map[string]jmap {
				switch name {
				case "inboxes":
					return w.Inboxes
				case "outboxes":
					return w.Outboxes
				case "followers":
					return w.Followers
				case "following":
					return w.Following
				case "liked":
					return w.Liked
				}
				return nil
			}
			kindOf := touched[id]
			key := id
			if i := strings.Index(id, " "); i >= 0 {
				key = id[:i]
			}
			if kindOf == "store" {
				doc = sc0.World.Store[id]
			} else if kindOf == "remote" {
				doc = sc0.World.Remote[id].Doc
			} else {
				doc = coll(sc0.World, kindOf)[key]
			}
			var paths [][]interface{}
			jsonPaths(map[string]interface{}(doc), nil, &paths)
			if kindOf != "store" && kindOf != "remote" { // a collection page: its items replaced by, and mixed with, every hostile value
				for _, member := range []string{"orderedItems", "items"} {
					for _, rv := range repl {
						for _, mixed := range []bool{false, true} {
							m := deepCopy(doc)
							if mixed {
								m[member] = []interface{}{"https://remote.example/activities/1", rv, "https://remote.example/activities/1"}
							} else {
								m[member] = rv
							}
							sc := *sc0
							w := copyWorld(sc0.World)
							coll(w, kindOf)[key] = m
							sc.World = w
							res := runWatched(&sc)
							results[res.Result]++
							where[kindOf]++
							s.Evaluations++
							if res.Result == "panic" || res.Result == "hang" {
								report(res.Result, &sc, res, map[string]interface{}{"where": kindOf, "id": key, "member": member, "replacement": rv, "document": m})
							}
						}
					}
				}
			}
			for _, p := range paths {
				ops := []int{0, 1 + r.intn(len(repl)), 1 + r.intn(len(repl))}
				if kindOf != "store" && kindOf != "remote" && len(p) <= 2 { // the members and items of a served / updated collection: every replacement
					ops = ops[:1]
					for o := 1; o <= len(repl); o++ {
						ops = append(ops, o)
					}
				}
				for _, op := range ops {
					var rv interface{}
					if op > 0 {
						rv = repl[op-1]
					}
					m := asJmap(mutateAt(map[string]interface{}(doc), p, op, rv))
					if m == nil {
						continue
					}
					sc := *sc0
					w := copyWorld(sc0.World)
					if kindOf == "store" {
						w.Store[id] = m
					} else if kindOf == "remote" {
						w.Remote[id] = remoteDoc{Kind: "doc", Doc: m}
					} else {
						coll(w, kindOf)[key] = m
					}
					sc.World = w
					res := runWatched(&sc)
					results[res.Result]++
					where[touched[id]]++
					s.Evaluations++
					if res.Result == "panic" || res.Result == "hang" {
						report(res.Result, &sc, res, map[string]interface{}{"where": touched[id], "id": id, "path": p, "op": op, "replacement": rv, "document": m})
					}
				}
			}
		}
	}
	// (c) the decoder alone
	t := loadTables()
	nDec := 0
	decode := func(label string, raw []byte) {
		nDec++
		done := make(chan string, 1)
		go func() {
			defer func() {
				if p := recover(); p != nil {
					done <- fmt.Sprint("panic: ", p)
				}
			}()
			var m map[string]interface{}
			if json.Unmarshal(raw, &m) != nil {
				done <- ""
				return
			}
			v, err := streams.ToType(context.Background(), m)
			if err == nil && v != nil {
				if _, err := streams.Serialize(v); err != nil {
					_ = err
				}
			}
			done <- ""
		}()
		select {
		case msg := <-done:
			if msg != "" {
				sig := "C11:decoder:" + firstLine(msg)
				if !seen[sig] {
					seen[sig] = true
					violations = append(violations, Violation{What: "the decoder panics: " + firstLine(msg), Sig: sig, Replay: map[string]interface{}{"document": string(raw), "from": label}})
				}
			}
		case <-time.After(20 * time.Second):
			violations = append(violations, Violation{What: "the decoder does not return", Sig: "C11:decoder:hang", Replay: map[string]interface{}{"document": string(raw), "from": label}})
		}
	}
	perType := 12
	if *tier != "quick" {
		perType = 400
	}
	for _, ty := range t.Types {
		if ty.Typeless {
			continue
		}
		doc := map[string]interface{}{"@context": allContexts, "type": ty.Name, "id": "https://example.com/d"}
		for _, f := range ty.Fields {
			pn := f.GoName
			for _, pre := range []string{"ActivityStreams", "ForgeFed", "Toot", "W3IDSecurityV1", "JSONLD"} {
				pn = strings.TrimPrefix(pn, pre)
			}
			if pn == "" || pn == "Id" || pn == "Type" {
				continue
			}
			pn = strings.ToLower(pn[:1]) + pn[1:]
			doc[pn] = pick(r, []string{"https://example.com/x", "text", "2020-01-02T03:04:05Z", "PT5S", "5", "true"})
		}
		var paths [][]interface{}
		jsonPaths(doc, nil, &paths)
		for i := 0; i < perType && len(paths) > 0; i++ {
			p := paths[r.intn(len(paths))]
			op := r.intn(len(repl) + 1)
			var rv interface{}
			if op > 0 {
				rv = repl[op-1]
			}
			b, _ := json.Marshal(mutateAt(doc, p, op, rv))
			decode(ty.Name, b)
		}
	}
	// lexical near-misses of every literal kind, on every property of a type that is a plain literal holder
	near := []interface{}{"P1W", "PT1.5S", "PT5Sx", "P1Y2", "PT", "P", "P-1D", "+P1D", "P1DT", "P1.5D", "PT1H1.5M", "P1Y2M3DT4H5M6.789S", "-P", "PP1D", "P1D1D", "P1S", "PT1Y", "P 1D", "p1d", "P1d",
		"P99999999999999999999D", "PT99999999999999999999S", "-PT", "P1Y-2M", "P1YT2H3", "PT1M1M", "P0", "PT.5S", "P1,5D",
		"2020-02-30T00:00:00Z", "2020-02-03T04:05:06", "2020-02-03 04:05:06Z", "2020-02-03T24:00:00Z", "2020-02-03T04:05:06.123Z", "2020-02-03T04:05:06+24:00", "T04:05:06Z",
		"2020-13-01T00:00:00Z", "2020-02-03T04:05:60Z", "20200203T040506Z", "2020-02-03T04:05Z", "2020-02-03T04:05:06z", "0000-00-00T00:00:00Z", "2020-02-03T04:05:06+0530", "99999-01-01T00:00:00Z", "-2020-02-03T04:05:06Z",
		float64(-1), float64(1.5), float64(1e300), "1", "-0", float64(1 << 62), "NaN", "Infinity",
		"x-", "-en", "en--US", "a/b/c", "text/", "/html", "text/html; charset", "",
		"http://", "https://[::1", "://x", "http://a b", "urn:", "mailto:", "%zz", "http://%41:80/",
		map[string]interface{}{"en": 5}, map[string]interface{}{"": ""}, map[string]interface{}{"en": nil}, map[string]interface{}{"en": map[string]interface{}{"x": "y"}}}
	for _, ty := range t.Types {
		if ty.Typeless {
			continue
		}
		for _, f := range ty.Fields {
			pn := propJSONName(f.GoName)
			if pn == "" || pn == "id" || pn == "type" {
				continue
			}
			if ty.Name != "Note" && ty.Name != "Place" && ty.Name != "Question" && ty.Name != "Link" && ty.Name != "OrderedCollectionPage" && ty.Name != "Ticket" && ty.Name != "Emoji" && ty.Name != "PublicKey" && ty.Name != "Tombstone" && ty.Name != "Profile" && ty.Name != "Relationship" && ty.Name != "Commit" {
				continue
			}
			for _, nv := range near {
				for _, wrap := range []int{0, 1} {
					var v interface{} = nv
					if wrap == 1 {
						v = []interface{}{nv, nv}
					}
					b, _ := json.Marshal(map[string]interface{}{"@context": allContexts, "type": ty.Name, "id": "https://example.com/d", pn: v})
					decode(ty.Name+"."+pn, b)
					if _, isMap := nv.(map[string]interface{}); isMap {
						b, _ = json.Marshal(map[string]interface{}{"@context": allContexts, "type": ty.Name, "id": "https://example.com/d", pn + "Map": v})
						decode(ty.Name+"."+pn+"Map", b)
					}
				}
			}
		}
	}
	for i := 0; i < 200; i++ {
		n := r.intn(60)
		raw := make([]byte, n)
		for j := range raw {
			const alphabet = "{}[]\":,0123456789abcdefnulltrue @.-\\/"
			raw[j] = alphabet[r.intn(len(alphabet))]
		}
		decode("random", raw)
		decode("random-object", append(append([]byte(`{"@context":"https://www.w3.org/ns/activitystreams","type":"Note",`), raw...), '}'))
	}
	s.Distinct = s.Evaluations
	s.Dist["results"] = results
	s.Dist["mutated"] = where
	s.Dist["decoder_documents"] = nDec
	s.Violations = violations
	writeSummary(s)
	fmt.Printf("c11: %d runs, %d decoder documents, %d violations\n", s.Evaluations, nDec, len(violations))
}

func firstLine(s string) string {
	if i := strings.Index(s, "\n"); i >= 0 {
		return s[:i]
	}
	return s
}
