package main

// C08: concurrent requests on one Actor under a deterministic cooperative scheduler.
// Every Database / Transport / application call of the recorder is a scheduling point;
// Lock blocks while another thread holds the id (the application's mutual exclusion).
// Schedules are explored depth-first up to a preemption bound, then at random.

import (
	"bytes"
	"context"
	"encoding/json"
	"flag"
	"fmt"
	"net/http"
	"sort"
	"strings"
	"sync"

)

var (
	c08N      = flag.Int("sets", 2, "request sets per kind")
	c08Bound  = flag.Int("bound", 2, "preemption bound of the exhaustive part")
	c08Cap    = flag.Int("cap", 300, "cap on explored schedules per request set")
	c08Random = flag.Int("random", 40, "random schedules per request set beyond the bound")
	c08Kinds  = flag.String("kinds", "dup,inbox,like,follow,add,outbox,forward2,add2,remove2,likebad,accept2,refused,updlike,blocked,faulty", "request-set kinds")
)

type abortSignal struct{}

type cthread struct {
	wake      chan struct{}
	done      bool
	blockedOn string
	sc        *scenario
	res       runResult
	rw        *recWriter
}

type decision struct {
	opts        []int
	chosen, cur int
	curRunnable bool
}

type csched struct {
	noWait    map[int]bool // threads whose Lock does not wait: refused (not taken) while another request holds the id
	foreign   []string     // Unlock calls that released a lock held by another request
	r         *recorder
	threads   []*cthread
	locks     map[string]int
	prefix    []int
	pos       int
	decisions []decision
	deadlock  bool
	aborted   bool
	finished  chan struct{}
	finOnce   sync.Once
	rnd       *rng // non-nil: random choices beyond the prefix
}

func (s *csched) runnable(t int) bool {
	th := s.threads[t]
	if th.done {
		return false
	}
	if th.blockedOn != "" {
		if _, held := s.locks[th.blockedOn]; held {
			return false
		}
	}
	return true
}

func (s *csched) choose(cur int, curRunnable bool) int {
	var opts []int
	for t := range s.threads {
		if s.runnable(t) && !(t == cur && !curRunnable) {
			opts = append(opts, t)
		}
	}
	if len(opts) == 0 {
		return -1
	}
	pick := opts[0]
	if curRunnable {
		pick = cur
	}
	if s.pos < len(s.prefix) {
		for _, o := range opts {
			if o == s.prefix[s.pos] {
				pick = o
			}
		}
	} else if s.rnd != nil && s.rnd.chance(1, 4) {
		pick = opts[s.rnd.intn(len(opts))]
	}
	s.decisions = append(s.decisions, decision{opts: opts, chosen: pick, cur: cur, curRunnable: curRunnable})
	s.pos++
	return pick
}

func (s *csched) switchTo(from, to int) {
	if to == from {
		return
	}
	s.r.tid = to
	s.threads[to].wake <- struct{}{}
	<-s.threads[from].wake
	if s.aborted {
		panic(abortSignal{})
	}
}

func (s *csched) yield(tid int, what string) {
	if s.aborted {
		panic(abortSignal{})
	}
	s.switchTo(tid, s.choose(tid, true))
}

func (s *csched) acquire(tid int, id string) bool {
	for {
		if _, held := s.locks[id]; !held {
			s.locks[id] = tid
			return true
		}
		if s.noWait[tid] && s.locks[id] != tid {
			return false
		}
		// held (by another thread, or by this one: the application's lock is not re-entrant)
		s.threads[tid].blockedOn = id
		next := s.choose(tid, false)
		if next == -1 {
			s.deadlock = true
			s.abortAll(tid)
			s.threads[tid].done = true
			s.finOnce.Do(func() { close(s.finished) })
			panic(abortSignal{})
		}
		s.switchTo(tid, next)
		s.threads[tid].blockedOn = ""
	}
}

// release: the application's lock is a plain binary semaphore per id (a mutex per id): Unlock frees it whoever holds it.
func (s *csched) release(tid int, id string) {
	if o, held := s.locks[id]; held {
		if o != tid {
			s.foreign = append(s.foreign, fmt.Sprintf("request %d released the lock on %s held by request %d", tid, id, o))
		}
		delete(s.locks, id)
	}
}

func (s *csched) abortAll(except int) {
	s.aborted = true
	for t, th := range s.threads {
		if t != except && !th.done {
			th.done = true
			th.wake <- struct{}{}
		}
	}
}

// threadDone hands over to another thread or ends the execution.
func (s *csched) threadDone(tid int) {
	s.threads[tid].done = true
	if s.aborted {
		return
	}
	next := s.choose(tid, false)
	if next == -1 {
		for _, th := range s.threads {
			if !th.done {
				s.deadlock = true
			}
		}
		if s.deadlock {
			s.abortAll(tid)
		}
		s.finOnce.Do(func() { close(s.finished) })
		return
	}
	s.r.tid = next
	s.threads[next].wake <- struct{}{}
}

type concResult struct {
	foreign   []string
	threads   []*cthread
	final     *world
	deadlock  bool
	decisions []decision
	global    []entry
}

func runConc(w0 *world, cfg config, reqs []*scenario, prefix []int, rnd *rng, noWait map[int]bool, faultAt map[int]int) concResult {
	w := copyWorld(w0)
	r := newRecorder(w, &cfg, nil)
	if len(faultAt) > 0 {
		r.tfaults, r.tnFall = map[int]map[int]bool{}, map[int]int{}
		for t, k := range faultAt {
			r.tfaults[t] = map[int]bool{k: true}
		}
	}
	s := &csched{r: r, locks: map[string]int{}, prefix: prefix, finished: make(chan struct{}), rnd: rnd, noWait: noWait}
	r.sched = &scheduler{impl: s}
	actor := buildActor(r) // ONE actor for all concurrent requests
	var wg sync.WaitGroup
	for i, sc := range reqs {
		th := &cthread{wake: make(chan struct{}), sc: sc}
		th.rw = &recWriter{r: r, h: http.Header{}, digestIdx: -1}
		s.threads = append(s.threads, th)
		wg.Add(1)
		go func(tid int, th *cthread) {
			defer wg.Done()
			<-th.wake
			if s.aborted {
				return
			}
			defer func() {
				if p := recover(); p != nil {
					if _, ok := p.(abortSignal); ok {
						return
					}
					th.res.Result = "panic"
					th.res.PanicMsg = fmt.Sprint(p)
					th.res.Handled = true
				}
				s.threadDone(tid)
			}()
			body, _ := json.Marshal(th.sc.Body)
			q, _ := http.NewRequest(th.sc.Method, "https://"+host+th.sc.Path, bytes.NewReader(body))
			q.Header.Set("Content-Type", th.sc.ContentType)
			q.Host = host
			var handled bool
			var err error
			switch th.sc.Entry {
			case "postinbox":
				handled, err = actor.PostInbox(context.Background(), th.rw, q)
			case "postoutbox":
				handled, err = actor.PostOutbox(context.Background(), th.rw, q)
			}
			th.res.Handled = handled
			th.res.Result = pubErrClass(err)
		}(i, th)
	}
	first := s.choose(-1, false)
	r.tid = first
	s.threads[first].wake <- struct{}{}
	<-s.finished
	wg.Wait()
	res := concResult{threads: s.threads, final: w, deadlock: s.deadlock, decisions: s.decisions, global: r.trace, foreign: s.foreign}
	for t, th := range s.threads {
		for _, e := range r.trace {
			if e.Tid == t {
				th.res.Trace = append(th.res.Trace, e)
			}
		}
		th.res.Statuses = th.rw.Status
	}
	return res
}

// ---- what the store holds afterwards: every collection as a sorted list of ids ----
func idsOf(x interface{}) []string {
	var out []string
	var one func(y interface{})
	one = func(y interface{}) {
		switch v := y.(type) {
		case string:
			out = append(out, v)
		case map[string]interface{}:
			if id, ok := v["id"].(string); ok {
				out = append(out, id)
			}
		case []interface{}:
			for _, z := range v {
				one(z)
			}
		}
	}
	one(x)
	sort.Strings(out)
	return out
}

func collectionsOf(w *world) map[string][]string {
	out := map[string][]string{}
	add := func(prefix string, m map[string]jmap) {
		for k, v := range m {
			for _, p := range []string{"orderedItems", "items"} {
				if x, ok := v[p]; ok {
					out[prefix+k+"#"+p] = idsOf(x)
				}
			}
			for _, p := range []string{"likes", "shares"} {
				if c, ok := v[p].(map[string]interface{}); ok {
					for _, q := range []string{"orderedItems", "items"} {
						if x, ok := c[q]; ok {
							out[prefix+k+"#"+p] = idsOf(x)
						}
					}
				}
			}
		}
	}
	add("inbox:", w.Inboxes)
	add("outbox:", w.Outboxes)
	add("followers:", w.Followers)
	add("following:", w.Following)
	add("liked:", w.Liked)
	add("store:", w.Store)
	for k, v := range out {
		if len(v) == 0 {
			delete(out, k)
		}
	}
	return out
}

func collKey(m map[string][]string) string {
	keys := make([]string, 0, len(m))
	for k := range m {
		keys = append(keys, k)
	}
	sort.Strings(keys)
	var b strings.Builder
	for _, k := range keys {
		b.WriteString(k + "=" + strings.Join(m[k], ",") + ";")
	}
	return b.String()
}

// outbox ids are generated (NewID counter order differs between schedules): compare generated ids by count only
func normGenerated(m map[string][]string, base string) map[string][]string {
	out := map[string][]string{}
	for k, v := range m {
		var l []string
		for _, id := range v {
			if strings.HasPrefix(id, base) {
				id = base + "/<generated>"
			}
			l = append(l, id)
		}
		sort.Strings(l)
		out[k] = l
	}
	return out
}

func permutations(n int) [][]int {
	if n == 1 {
		return [][]int{{0}}
	}
	var out [][]int
	for _, p := range permutations(n - 1) {
		for i := 0; i <= len(p); i++ {
			q := append(append(append([]int{}, p[:i]...), n-1), p[i:]...)
			out = append(out, q)
		}
	}
	return out
}

// ---- request sets ------------------------------------------------------------------------------------------

type reqSet struct {
	faultAt map[int]int // request -> index of its own fallible call that fails
	noWait map[int]bool // requests whose Lock does not wait
	kind string
	w    *world
	cfg  config
	reqs []*scenario
}

func genReqSet(r *rng, kind string, k int) reqSet {
	w := baseWorld(r)
	cfg := defaultCfg()
	alice := actorID(local, "alice")
	n := 2 + r.intn(2)
	rs := reqSet{kind: kind, w: w, cfg: cfg}
	inboxAct := func(ty string, i int, sender string) jmap {
		return jmap{"@context": asCtx, "type": ty, "id": fmt.Sprintf("%s/activities/c%d-%d", remote, k, i), "actor": sender}
	}
	w.NewIDBase = fmt.Sprintf("%s/new/c%d", local, k)
	switch kind {
	case "dup": // one activity, several deliveries to one inbox (forwardable half of the time)
		a := inboxAct(pick(r, []string{"Create", "Like", "Announce"}), 0, actorID(remote, "carol"))
		a["object"] = jmap{"type": "Note", "id": fmt.Sprintf("%s/notes/c%d", remote, k), "content": "x"}
		if a["type"] != "Create" {
			a["object"] = local + "/notes/1"
		}
		if r.chance(1, 2) {
			a["to"] = local + "/cols/1"
			a["inReplyTo"] = local + "/notes/2"
		}
		for i := 0; i < n; i++ {
			rs.reqs = append(rs.reqs, inboxScenario("conc:dup", w, cfg, a))
		}
	case "inbox": // different activities to one inbox
		for i := 0; i < n; i++ {
			a := inboxAct(pick(r, []string{"Create", "Travel", "Like"}), i, pick(r, remoteActors[:3]))
			a["object"] = jmap{"type": "Note", "id": fmt.Sprintf("%s/notes/c%d-%d", remote, k, i), "content": "x"}
			if a["type"] == "Like" {
				a["object"] = local + "/notes/1"
			}
			rs.reqs = append(rs.reqs, inboxScenario("conc:inbox", w, cfg, a))
		}
	case "like": // Likes / Announces of one owned object
		obj := local + "/notes/1"
		w.Store[obj]["likes"] = jmap{"type": "Collection", "id": obj + "/likes"}
		w.Store[obj]["shares"] = jmap{"type": "OrderedCollection", "id": obj + "/shares"}
		for i := 0; i < n; i++ {
			a := inboxAct(pick(r, []string{"Like", "Announce"}), i, pick(r, remoteActors[:3]))
			a["object"] = obj
			rs.reqs = append(rs.reqs, inboxScenario("conc:like", w, cfg, a))
		}
	case "follow": // Follows of one actor with auto-accept
		rs.cfg.OnFollow = 1
		for i := 0; i < n; i++ {
			a := inboxAct("Follow", i, remoteActors[i%3])
			a["object"] = alice
			rs.reqs = append(rs.reqs, inboxScenario("conc:follow", w, rs.cfg, a))
		}
	case "add": // Adds to one owned collection
		for i := 0; i < n; i++ {
			a := inboxAct("Add", i, pick(r, remoteActors[:3]))
			a["object"] = fmt.Sprintf("%s/things/c%d-%d", remote, k, i)
			a["target"] = local + "/cols/1"
			rs.reqs = append(rs.reqs, inboxScenario("conc:add", w, cfg, a))
		}
	case "outbox": // client POSTs to one outbox
		for i := 0; i < n; i++ {
			b := jmap{"@context": asCtx, "type": pick(r, []string{"Note", "Like", "Listen"}), "content": fmt.Sprintf("c%d-%d", k, i), "to": pick(r, remoteActors)}
			if b["type"] != "Note" {
				b["actor"] = alice
				b["object"] = fmt.Sprintf("%s/notes/%d", remote, 10+i)
			}
			rs.reqs = append(rs.reqs, outboxScenario("conc:outbox", w, cfg, b))
		}
	case "add2", "remove2": // Adds / Removes naming two owned collections as targets, in opposite orders
		ty := "Add"
		if kind == "remove2" {
			ty = "Remove"
		}
		for i := 0; i < 2; i++ {
			a := inboxAct(ty, i, pick(r, remoteActors[:3]))
			a["object"] = fmt.Sprintf("%s/things/c%d-%d", remote, k, i)
			cols := []interface{}{local + "/cols/1", local + "/cols/2"}
			if i == 1 {
				cols = []interface{}{local + "/cols/2", local + "/cols/1"}
			}
			if r.chance(1, 3) {
				cols = append(cols, cols[0])
			}
			a["target"] = cols
			rs.reqs = append(rs.reqs, inboxScenario("conc:"+kind, w, cfg, a))
		}
	case "likebad": // a client Like that is rejected (embedded object without id), then well-formed ones on the same outbox
		for i := 0; i < n; i++ {
			b := jmap{"@context": asCtx, "type": "Like", "actor": alice, "object": fmt.Sprintf("%s/notes/%d", remote, 10+i)}
			if i == 0 {
				b["object"] = jmap{"type": "Note", "content": "no id"}
			}
			rs.reqs = append(rs.reqs, outboxScenario("conc:likebad", w, cfg, b))
		}
	case "accept2": // Accepts of two stored Follows of one actor: both peers end up in following
		for i := 0; i < 2; i++ {
			peer := remoteActors[i]
			fid := fmt.Sprintf("%s/follows/c%d-%d", local, k, i)
			f := jmap{"@context": asCtx, "type": "Follow", "id": fid, "actor": alice, "object": peer}
			w.Store[fid] = f
			w.Owned[fid] = true
			a := inboxAct("Accept", i, peer)
			a["object"] = jmap{"type": "Follow", "id": fid, "actor": alice, "object": peer}
			rs.reqs = append(rs.reqs, inboxScenario("conc:accept2", w, cfg, a))
		}
	case "refused": // three deliveries to one inbox; the second request's Lock does not wait (a lock-wait timeout, a cancelled
		// request): while another request holds the id it is refused - not taken - and that request fails, having changed nothing
		rs.noWait = map[int]bool{1: true}
		for i := 0; i < 3; i++ {
			j := i
			if k%2 == 0 && i == 2 {
				j = 0 // the first and the third are deliveries of one activity
			}
			a := inboxAct("Create", j, remoteActors[j%3])
			a["object"] = jmap{"type": "Note", "id": fmt.Sprintf("%s/notes/c%d-%d", remote, k, j), "content": "x"}
			rs.reqs = append(rs.reqs, inboxScenario("conc:refused", w, cfg, a))
		}
	case "blocked": // deliveries from three peers, the second of whom is blocked: whatever the others do meanwhile, its activity is
		// refused and changes nothing (each request's block check is about its own actors)
		rs.cfg.Blocked = []string{remoteActors[1]}
		for i := 0; i < 3; i++ {
			a := inboxAct("Create", i, remoteActors[i])
			a["object"] = jmap{"type": "Note", "id": fmt.Sprintf("%s/notes/c%d-%d", remote, k, i), "content": "x"}
			rs.reqs = append(rs.reqs, inboxScenario("conc:blocked", w, rs.cfg, a))
		}
	case "updlike": // a client Update of an owned note while peers like and announce it: the note's likes / shares survive the Update
		obj := local + "/notes/1"
		w.Store[obj]["likes"] = jmap{"type": "Collection", "id": obj + "/likes"}
		w.Store[obj]["shares"] = jmap{"type": "OrderedCollection", "id": obj + "/shares"}
		b := jmap{"@context": asCtx, "type": "Update", "actor": alice, "to": remoteActors[0],
			"object": jmap{"type": "Note", "id": obj, "content": fmt.Sprintf("edited c%d", k), "summary": "edited"}}
		rs.reqs = append(rs.reqs, outboxScenario("conc:updlike", w, cfg, b))
		for i := 0; i < 2; i++ {
			a := inboxAct([]string{"Like", "Announce"}[(k+i)%2], i, remoteActors[i])
			a["object"] = obj
			rs.reqs = append(rs.reqs, inboxScenario("conc:updlike", w, cfg, a))
		}
	case "faulty": // two Follows of one actor (automatic Accept) and a client Note addressed to that actor, one of the three with
		// one failing call - at every position in turn: whatever a failure leaves behind, the other requests complete and their
		// updates are there
		rs.cfg.OnFollow = 1
		for i := 0; i < 2; i++ {
			a := inboxAct("Follow", i, remoteActors[i])
			a["object"] = alice
			rs.reqs = append(rs.reqs, inboxScenario("conc:faulty", w, rs.cfg, a))
		}
		b := jmap{"@context": asCtx, "type": "Note", "content": fmt.Sprintf("c%d", k), "to": []interface{}{alice, remoteActors[2]}}
		rs.reqs = append(rs.reqs, outboxScenario("conc:faulty", w, rs.cfg, b))
		w.InboxForActor[alice] = inboxOf(alice)
		rs.faultAt = map[int]int{[]int{0, 2}[(k/28)%2]: k % 28}
	case "forward2": // two forwardable activities naming two owned collections in opposite orders
		for i := 0; i < 2; i++ {
			a := inboxAct("Create", i, pick(r, remoteActors[:3]))
			a["object"] = jmap{"type": "Note", "id": fmt.Sprintf("%s/notes/c%d-%d", remote, k, i), "content": "x"}
			cols := []interface{}{local + "/cols/1", local + "/cols/2"}
			if i == 1 {
				cols = []interface{}{local + "/cols/2", local + "/cols/1"}
			}
			a["to"] = cols
			a["inReplyTo"] = local + "/notes/2"
			rs.reqs = append(rs.reqs, inboxScenario("conc:forward2", w, cfg, a))
		}
	}
	for _, sc := range rs.reqs {
		sc.Cfg = rs.cfg
	}
	return rs
}

// ---- exploration + emission --------------------------------------------------------------------------------

func runC08() {
	r := &rng{s: *seed}
	em := newEmitter()
	var runs []string
	var cases []string
	var meta []interface{}
	nsets, totalCases, totalRuns := 0, 0, 0
	flush := func() { // one Coq file per request set (-shards > 1): evaluated in parallel by the check
		if *pubShards <= 1 {
			return
		}
		var b strings.Builder
		b.WriteString(em.file(runs))
		b.WriteString("Record conc_case := { k_kind : string; k_runs : list nat; k_deadlock : bool; k_final : list (string * list string); k_seq : list (list (string * list string)) }.\n")
		b.WriteString("Definition conc_cases : list conc_case := [\n" + strings.Join(cases, ";\n") + "\n].\n")
		writeFile(fmt.Sprintf("shard_%d/observed.v", nsets), []byte(b.String()))
		ib, _ := json.Marshal(map[string]int{"case_offset": totalCases, "run_offset": totalRuns})
		writeFile(fmt.Sprintf("shard_%d/index.json", nsets), ib)
		nsets++
		totalCases += len(cases)
		totalRuns += len(runs)
		em = newEmitter()
		runs, cases = nil, nil
	}
	s := &Summary{Rule: "request sets x schedules: depth-first over the choices at every Database / Transport / callback call up to the preemption bound, then random schedules", Dist: map[string]interface{}{}}
	kinds := strings.Split(*c08Kinds, ",")
	perKind := map[string]int{}
	deadlocks := 0
	k := 0
	for _, kind := range kinds {
		nsetsKind, capKind, randKind := *c08N, *c08Cap, *c08Random
		if kind == "faulty" { // one request set per (request, position of the failing call)
			nsetsKind, capKind, randKind = 56, 30, 6
			k = 0
		}
		for i := 0; i < nsetsKind; i++ {
			k++
			rs := genReqSet(r, kind, k)
			// what the same requests put into the collections when executed one after another (every order)
			seqKeys := map[string]bool{}
			var seqs []map[string][]string
			subsets := [][]int{nil} // nil: all requests; a request whose Lock is refused fails having done nothing, so the
			// sequential references are the orders of all requests and of those whose locks wait
			if len(rs.noWait) > 0 {
				var waiting []int
				for j := range rs.reqs {
					if !rs.noWait[j] {
						waiting = append(waiting, j)
					}
				}
				subsets = append(subsets, waiting)
			}
			for _, sub := range subsets {
				n := len(rs.reqs)
				if sub != nil {
					n = len(sub)
				}
				for _, perm := range permutations(n) {
					w := rs.w
					for _, j := range perm {
						if sub != nil {
							j = sub[j]
						}
						sc := *rs.reqs[j]
						sc.World = w
						if k, ok := rs.faultAt[j]; ok {
							sc.Faults = []int{k}
						}
						res := runScenario(&sc)
						w = res.Final
					}
					m := normGenerated(collectionsOf(w), rs.w.NewIDBase)
					if !seqKeys[collKey(m)] {
						seqKeys[collKey(m)] = true
						seqs = append(seqs, m)
					}
				}
			}
			// schedules
			explored := 0
			seen := map[string]bool{}
			stack := [][]int{{}}
			runOne := func(prefix []int, rnd *rng) concResult {
				cr := runConc(rs.w, rs.cfg, rs.reqs, prefix, rnd, rs.noWait, rs.faultAt)
				explored++
				perKind[kind]++
				s.Evaluations++
				var idx []string
				for _, th := range cr.threads {
					idx = append(idx, fmt.Sprint(len(runs)))
					runs = append(runs, em.run(th.sc, &th.res))
				}
				fin := normGenerated(collectionsOf(cr.final), rs.w.NewIDBase)
				if cr.deadlock {
					deadlocks++
				}
				cases = append(cases, fmt.Sprintf("{| k_kind := %s; k_runs := [%s]; k_deadlock := %s; k_final := %s; k_seq := [%s] |}",
					coqStr(kind), strings.Join(idx, "; "), coqBool(cr.deadlock), em.collMap(fin), em.collMaps(seqs)))
				var sched []int
				for _, d := range cr.decisions {
					sched = append(sched, d.chosen)
				}
				meta = append(meta, map[string]interface{}{"kind": kind, "set": k, "schedule": sched, "deadlock": cr.deadlock, "requests": bodies(rs.reqs), "final": fin, "locks_that_do_not_wait": len(rs.noWait), "foreign_releases": cr.foreign})
				return cr
			}
			for len(stack) > 0 && explored < capKind {
				// breadth first: every schedule with one preemption before any with two (a deadlock or a lost update
				// between two requests needs one preemption at the right call)
				prefix := stack[0]
				stack = stack[1:]
				cr := runOne(prefix, nil)
				// children: deviate at one later decision, within the preemption bound
				pre := 0
				for i, d := range cr.decisions {
					if i >= len(prefix) {
						for _, o := range d.opts {
							if o == d.chosen {
								continue
							}
							cost := 0
							if d.curRunnable && o != d.cur {
								cost = 1
							}
							if pre+cost > *c08Bound {
								continue
							}
							child := make([]int, 0, i+1)
							for _, dd := range cr.decisions[:i] {
								child = append(child, dd.chosen)
							}
							child = append(child, o)
							key := fmt.Sprint(child)
							if !seen[key] {
								seen[key] = true
								stack = append(stack, child)
							}
						}
					}
					if d.curRunnable && d.chosen != d.cur {
						pre++
					}
				}
			}
			for j := 0; j < randKind; j++ {
				runOne(nil, &rng{s: r.next()})
			}
			flush()
		}
	}
	if *pubShards <= 1 {
		var b strings.Builder
		b.WriteString(em.file(runs))
		b.WriteString("Record conc_case := { k_kind : string; k_runs : list nat; k_deadlock : bool; k_final : list (string * list string); k_seq : list (list (string * list string)) }.\n")
		b.WriteString("Definition conc_cases : list conc_case := [\n" + strings.Join(cases, ";\n") + "\n].\n")
		writeFile("observed.v", []byte(b.String()))
		totalCases = len(cases)
	}
	s.Distinct = totalCases
	s.Dist["schedules_per_kind"] = perKind
	s.Dist["deadlocks"] = deadlocks
	s.Extra = map[string]interface{}{"cases": meta}
	if len(meta) > 0 {
		s.Samples = append(s.Samples, meta[0])
	}
	writeSummary(s)
	fmt.Printf("c08: %d request sets, %d schedules, %d deadlocks\n", k, totalCases, deadlocks)
}

func bodies(reqs []*scenario) []interface{} {
	var out []interface{}
	for _, sc := range reqs {
		out = append(out, map[string]interface{}{"entry": sc.Entry, "path": sc.Path, "body": sc.Body})
	}
	return out
}

func (e *emitter) collMap(m map[string][]string) string {
	keys := make([]string, 0, len(m))
	for k := range m {
		keys = append(keys, k)
	}
	sort.Strings(keys)
	q := make([]string, len(keys))
	for i, k := range keys {
		q[i] = "(" + e.str(k) + ", " + e.strList(m[k]) + ")"
	}
	return "[" + strings.Join(q, "; ") + "]"
}

func (e *emitter) collMaps(ms []map[string][]string) string {
	q := make([]string, len(ms))
	for i, m := range ms {
		q[i] = e.collMap(m)
	}
	return strings.Join(q, "; ")
}
