package main

import (
	"encoding/json"
	"flag"
	"fmt"
	"strings"
)

var (
	pubFamilies = flag.String("families", "inbox,outbox,get", "scenario families")
	pubN        = flag.Int("n", 2, "scenarios per (family, type)")
	pubFaults   = flag.String("faults", "none", "none | single")
	pubMaxRuns  = flag.Int("maxruns", 4000, "cap on executed runs")
	pubShards   = flag.Int("shards", 1, "write the runs as this many independent Coq files (shard_<k>/observed.v + index.json), evaluated in parallel")
	pubGate     = flag.Int("gate", 600, "size of the sample of the request product (0 = all)")
)

var inboxTypes = []string{"Create", "Update", "Delete", "Follow", "Accept", "Reject", "Add", "Remove", "Like", "Announce", "Undo", "Block", "Travel"}
var outboxTypes = []string{"Note", "Create", "CreateBig", "Update", "Delete", "Add", "Remove", "Like", "Block", "Follow", "Undo", "Listen"}

func genScenarios(r *rng) []*scenario {
	var out []*scenario
	fams := strings.Split(*pubFamilies, ",")
	k := 0
	for _, f := range fams {
		switch f {
		case "inbox":
			for _, ty := range inboxTypes {
				for i := 0; i < *pubN; i++ {
					k++
					out = append(out, genInbox(r, ty, k))
				}
			}
		case "fedfocus":
			for _, ty := range inboxTypes {
				for i := 0; i < *pubN; i++ {
					k++
					out = append(out, genInboxF(r, ty, k, true))
				}
			}
		case "outbox":
			for _, ty := range outboxTypes {
				for i := 0; i < *pubN; i++ {
					k++
					out = append(out, genOutbox(r, ty, k))
				}
			}
		case "authority":
			for _, ty := range []string{"Update", "Delete", "Accept", "Undo"} {
				for i := 0; i < *pubN; i++ {
					k++
					sc := genInboxF(r, ty, k, true)
					sc.Family = "authority:" + ty
					out = append(out, sc)
				}
			}
		case "effects":
			for _, ty := range []string{"Update", "Delete", "Add", "Remove", "Like", "Block"} {
				for i := 0; i < *pubN; i++ {
					k++
					out = append(out, genEffects(r, ty, k))
				}
			}
		case "deliver":
			for i := 0; i < *pubN; i++ {
				k++
				out = append(out, genDeliver(r, k))
			}
		case "hidden":
			for i := 0; i < *pubN; i++ {
				k++
				out = append(out, genHidden(r, k))
			}
		case "overrides":
			out = append(out, genOverrides(r)...)
		case "again":
			for i := 0; i < *pubN; i++ {
				k++
				out = append(out, genAgain(r, k))
			}
		case "shape":
			out = append(out, genShape(r, *pubN)...)
		case "gate":
			out = append(out, gateScenarios(r, *pubGate)...)
		case "gettypes":
			out = append(out, genGetTypes(r)...)
		case "get":
			for _, kind := range []string{"inbox", "outbox", "handler"} {
				for i := 0; i < *pubN; i++ {
					k++
					out = append(out, genGet(r, kind, k))
				}
			}
		}
	}
	return out
}

func runPub() {
	r := &rng{s: *seed}
	scs := genScenarios(r)
	em := newEmitter()
	var runs []string
	s := &Summary{Rule: "pub scenarios (world + configuration + request); fault-free run plus one run per fallible call", Dist: map[string]interface{}{}}
	fam := map[string]int{}
	results := map[string]int{}
	var meta []interface{}
	for _, f := range strings.Split(*pubFamilies, ",") {
		if f != "seq" && f != "forward" {
			continue
		}
		for i := 0; i < *pubN; i++ {
			var sscs []*scenario
			var sress []runResult
			if f == "seq" {
				sscs, sress = runSeq(r, i+1, em)
			} else {
				sscs, sress = runForward(r, i+1)
				var idx []string
				for j := range sscs {
					idx = append(idx, fmt.Sprint(len(runs)+j))
					if len(sscs[j].Faults) == 0 {
						em.world(len(runs)+j, sscs[j])
					}
				}
				em.seqs = append(em.seqs, "["+strings.Join(idx, "; ")+"]")
			}
			for j := range sscs {
				runs = append(runs, em.run(sscs[j], &sress[j]))
				meta = append(meta, map[string]interface{}{"family": sscs[j].Family, "note": fmt.Sprintf("sequence %d post %d", i+1, j+1), "faults": sscs[j].Faults, "result": sress[j].Result, "handled": sress[j].Handled, "statuses": sress[j].Statuses, "body": sscs[j].Body, "send": sscs[j].Send, "panic": sress[j].PanicMsg, "events": len(sress[j].Trace)})
				fam[sscs[j].Family]++
				results[sress[j].Result]++
				s.Evaluations++
			}
		}
	}
	K := *pubShards
	if K < 1 || len(runs) > 0 {
		K = 1 // sequences / histories / worlds refer to run indices: one file
	}
	ems := []*emitter{em}
	for k := 1; k < K; k++ {
		ems = append(ems, newEmitter())
	}
	shardRuns := make([][]string, K)
	shardIdx := make([][]int, K)
	shardRuns[0] = runs
	for i := range runs {
		shardIdx[0] = append(shardIdx[0], i)
	}
	total := len(runs)
	for si, sc := range scs {
		k := si % K
		e := ems[k]
		res := runScenario(sc)
		shardRuns[k] = append(shardRuns[k], e.run(sc, &res))
		shardIdx[k] = append(shardIdx[k], total)
		total++
		if len(sc.Faults) == 0 && (strings.HasSuffix(sc.Family, ":Add") || strings.HasSuffix(sc.Family, ":Remove")) {
			e.world(len(shardRuns[k])-1, sc) // C16 / C04: which targets were owned when the request arrived
		}
		meta = append(meta, map[string]interface{}{"family": sc.Family, "note": sc.Note, "faults": sc.Faults, "result": res.Result, "handled": res.Handled, "statuses": res.Statuses, "body": sc.Body, "send": sc.Send, "panic": res.PanicMsg, "events": len(res.Trace)})
		fam[sc.Family]++
		results[res.Result]++
		s.Evaluations++
		if *pubFaults == "single" && !strings.HasPrefix(sc.Family, "gate:") {
			for f := 0; f < res.NFall && total < *pubMaxRuns; f++ {
				sc2 := *sc
				sc2.Faults = []int{f}
				res2 := runScenario(&sc2)
				shardRuns[k] = append(shardRuns[k], e.run(&sc2, &res2))
				shardIdx[k] = append(shardIdx[k], total)
				total++
				meta = append(meta, map[string]interface{}{"family": sc.Family, "faults": sc2.Faults, "result": res2.Result, "handled": res2.Handled, "statuses": res2.Statuses, "body": sc.Body, "send": sc.Send, "panic": res2.PanicMsg, "events": len(res2.Trace)})
				results[res2.Result]++
				s.Evaluations++
			}
		}
	}
	runs = make([]string, total) // only its length is used below
	if K == 1 {
		writeFile("observed.v", []byte(em.file(shardRuns[0])))
	} else {
		for k := 0; k < K; k++ {
			writeFile(fmt.Sprintf("shard_%d/observed.v", k), []byte(ems[k].file(shardRuns[k])))
			b, _ := json.Marshal(shardIdx[k])
			writeFile(fmt.Sprintf("shard_%d/index.json", k), b)
		}
	}
	s.Distinct = len(runs)
	s.Dist["families"] = fam
	s.Dist["results"] = results
	s.Extra = map[string]interface{}{"runs": meta}
	if len(meta) > 0 {
		s.Samples = append(s.Samples, meta[0])
	}
	writeSummary(s)
	fmt.Printf("pub: %d scenarios, %d runs\n", len(scs), len(runs))
}
