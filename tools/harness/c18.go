package main

import (
	"fmt"
	"net/url"
	"reflect"
	"sort"
	"strings"
	"time"

	"github.com/go-fed/activity/streams/vocab"
)

// ---- value factory by Go type -------------------------------------------------

var (
	tURL    = reflect.TypeOf(&url.URL{})
	tTime   = reflect.TypeOf(time.Time{})
	tDur    = reflect.TypeOf(time.Duration(0))
	tStrMap = reflect.TypeOf(map[string]string{})
)

func tokenOf(v reflect.Value) string {
	x := v.Interface()
	switch t := x.(type) {
	case *url.URL:
		if t == nil {
			return "<nil>"
		}
		return t.String()
	case vocab.Type:
		if t == nil || reflect.ValueOf(t).IsNil() {
			return "<nil>"
		}
		if id := t.GetJSONLDId(); id != nil {
			return "T:" + id.Get().String()
		}
		return "T:<noid>"
	case time.Time:
		return fmt.Sprint(t.Unix())
	}
	return fmt.Sprint(x)
}

// makeValue builds the n-th value of Go type t (nil if the harness cannot).
func makeValue(t reflect.Type, n int) (reflect.Value, bool) {
	switch {
	case t == tURL:
		u, _ := url.Parse(fmt.Sprintf("https://example.org/%d", n))
		return reflect.ValueOf(u), true
	case t == tTime:
		return reflect.ValueOf(time.Unix(int64(1000000+n), 0).UTC()), true
	case t == tDur:
		return reflect.ValueOf(time.Duration(n+1) * time.Second), true
	case t == tStrMap:
		return reflect.ValueOf(map[string]string{"en": fmt.Sprintf("v%d", n)}), true
	case t.Kind() == reflect.String:
		return reflect.ValueOf(fmt.Sprintf("s%d", n)).Convert(t), true
	case t.Kind() == reflect.Bool:
		return reflect.ValueOf(n%2 == 0), true
	case t.Kind() == reflect.Float64:
		return reflect.ValueOf(float64(n) + 0.5), true
	case t.Kind() == reflect.Int:
		return reflect.ValueOf(n), true
	case t.Kind() == reflect.Interface:
		// a vocab type interface: find the generated type implementing it
		for _, h := range hierRows {
			v := h.New()
			if reflect.TypeOf(v).Implements(t) && "vocab."+h.Struct == t.String() {
				id, _ := url.Parse(fmt.Sprintf("https://example.org/t%d", n))
				idp := propByName("id").New()
				reflect.ValueOf(idp).MethodByName("Set").Call([]reflect.Value{reflect.ValueOf(id)})
				v.SetJSONLDId(idp.(vocab.JSONLDIdProperty))
				return reflect.ValueOf(v), true
			}
		}
	}
	return reflect.Value{}, false
}

func propByName(n string) *propRow {
	for i := range propRows {
		if propRows[i].Name == n {
			return &propRows[i]
		}
	}
	return nil
}

// kindsOf lists the kind suffixes K for which the property has Append<K> / Set<K>.
func kindsOf(p interface{}, functional bool) []string {
	t := reflect.TypeOf(p)
	var out []string
	prefix := "Append"
	if functional {
		prefix = "Set"
	}
	for i := 0; i < t.NumMethod(); i++ {
		n := t.Method(i).Name
		if strings.HasPrefix(n, prefix) && n != prefix+"Type" && n != "SetLanguage" {
			out = append(out, strings.TrimPrefix(n, prefix))
		}
	}
	sort.Strings(out)
	return out
}

func elemState(el interface{}) (kinds []string, tok string) {
	if el == nil || (reflect.ValueOf(el).Kind() == reflect.Ptr && reflect.ValueOf(el).IsNil()) {
		return nil, "<nil>"
	}
	t := reflect.TypeOf(el)
	v := reflect.ValueOf(el)
	for i := 0; i < t.NumMethod(); i++ {
		m := t.Method(i)
		if !strings.HasPrefix(m.Name, "Is") || m.Type.NumIn() != 1 || m.Type.NumOut() != 1 || m.Type.Out(0).Kind() != reflect.Bool {
			continue
		}
		if v.Method(i).Call(nil)[0].Bool() {
			k := strings.TrimPrefix(m.Name, "Is")
			g := v.MethodByName("Get" + k)
			if !g.IsValid() {
				g = v.MethodByName("Get")
			}
			kinds = append(kinds, k)
			if g.IsValid() && g.Type().NumIn() == 0 {
				tok = tokenOf(g.Call(nil)[0])
			}
		}
	}
	// IRI and XMLSchemaAnyURI are one slot on anyURI properties
	if len(kinds) == 2 && kinds[0] == "IRI" && kinds[1] == "XMLSchemaAnyURI" {
		kinds = kinds[:1]
	}
	return
}

type refCell struct {
	kind, tok string
}

type c18op struct {
	op   string // append prepend insert set remove swap
	i, j int
	kind string
	n    int  // value number
	gen  bool // through the generic <Op>Type(.., vocab.Type) entry point instead of the kind-specific one
}

type c18state struct {
	lenv     int
	at       []refCell
	fwd, bwd []string
	serLen   int
}

func observeNF(p interface{}) c18state {
	v := reflect.ValueOf(p)
	n := int(v.MethodByName("Len").Call(nil)[0].Int())
	st := c18state{lenv: n}
	for i := 0; i < n; i++ {
		el := v.MethodByName("At").Call([]reflect.Value{reflect.ValueOf(i)})[0].Interface()
		ks, tok := elemState(el)
		st.at = append(st.at, refCell{strings.Join(ks, "+"), tok})
	}
	limit := 2*n + 2
	cur := v.MethodByName("Begin").Call(nil)[0]
	for c := 0; c < limit && cur.IsValid() && !cur.IsNil(); c++ {
		_, tok := elemState(cur.Interface())
		st.fwd = append(st.fwd, tok)
		cur = cur.Elem().MethodByName("Next").Call(nil)[0]
		if cur.Kind() == reflect.Interface && !cur.IsNil() {
			cur = cur.Elem()
		}
		cur = reflect.ValueOf(ifaceOrNil(cur))
	}
	if n > 0 {
		cur = v.MethodByName("At").Call([]reflect.Value{reflect.ValueOf(n - 1)})[0]
		for c := 0; c < limit && cur.IsValid() && !cur.IsNil(); c++ {
			_, tok := elemState(cur.Interface())
			st.bwd = append(st.bwd, tok)
			cur = cur.Elem().MethodByName("Prev").Call(nil)[0]
			cur = reflect.ValueOf(ifaceOrNil(cur))
		}
	}
	ser := v.MethodByName("Serialize").Call(nil)[0].Interface()
	switch s := ser.(type) {
	case []interface{}:
		st.serLen = len(s)
	case nil:
		st.serLen = 0
	default:
		st.serLen = 1
	}
	return st
}

func ifaceOrNil(v reflect.Value) interface{} {
	if !v.IsValid() {
		return nil
	}
	if (v.Kind() == reflect.Interface || v.Kind() == reflect.Ptr) && v.IsNil() {
		return nil
	}
	return v.Interface()
}

// applyNF applies one operation to the real property; returns false if the kind cannot be built.
func applyNF(p interface{}, o c18op) (ok bool, tok string, kind string) {
	v := reflect.ValueOf(p)
	call := func(name string, pre ...int) (bool, string) {
		m := v.MethodByName(name)
		if !m.IsValid() {
			return false, ""
		}
		vt := m.Type().In(m.Type().NumIn() - 1)
		val, ok := makeValue(vt, o.n)
		if !ok {
			return false, ""
		}
		if o.gen && vt.Kind() == reflect.Interface && strings.HasSuffix(name, o.kind) {
			if gm := v.MethodByName(strings.TrimSuffix(name, o.kind) + "Type"); gm.IsValid() {
				m = gm // the same value through the generic entry point
			}
		}
		var in []reflect.Value
		for _, x := range pre {
			in = append(in, reflect.ValueOf(x))
		}
		in = append(in, val)
		if out := m.Call(in); len(out) == 1 && !out[0].IsNil() {
			panic(fmt.Sprintf("%s refused a value of the property's range: %v", name, out[0].Interface()))
		}
		return true, tokenOf(val)
	}
	switch o.op {
	case "append":
		ok, tok = call("Append" + o.kind)
	case "prepend":
		ok, tok = call("Prepend" + o.kind)
	case "insert":
		ok, tok = call("Insert"+o.kind, o.i)
	case "set":
		name := "Set" + o.kind
		if !v.MethodByName(name).IsValid() {
			name = "Set"
		}
		ok, tok = call(name, o.i)
	case "remove":
		v.MethodByName("Remove").Call([]reflect.Value{reflect.ValueOf(o.i)})
		ok = true
	case "swap":
		v.MethodByName("Swap").Call([]reflect.Value{reflect.ValueOf(o.i), reflect.ValueOf(o.j)})
		ok = true
	}
	return ok, tok, o.kind
}

func applyRef(l []refCell, o c18op, tok string) []refCell {
	c := refCell{o.kind, tok}
	switch o.op {
	case "append":
		return append(append([]refCell{}, l...), c)
	case "prepend":
		return append([]refCell{c}, l...)
	case "insert":
		out := append([]refCell{}, l[:o.i]...)
		out = append(out, c)
		return append(out, l[o.i:]...)
	case "set":
		out := append([]refCell{}, l...)
		out[o.i] = c
		return out
	case "remove":
		out := append([]refCell{}, l[:o.i]...)
		return append(out, l[o.i+1:]...)
	case "swap":
		out := append([]refCell{}, l...)
		out[o.i], out[o.j] = out[o.j], out[o.i]
		return out
	}
	return l
}

func sameKind(obs, want string) bool {
	return obs == want || (want == "IRI" && obs == "XMLSchemaAnyURI") || (want == "XMLSchemaAnyURI" && obs == "IRI")
}

// compareRef returns "" if the observed state equals the plain list, else the name of the first differing projection.
func compareRef(st c18state, ref []refCell) string {
	if st.lenv != len(ref) {
		return "len"
	}
	for i, c := range ref {
		if !sameKind(st.at[i].kind, c.kind) {
			return "kind"
		}
		if st.at[i].tok != c.tok {
			return "at"
		}
	}
	if st.serLen != len(ref) {
		return "serialize"
	}
	if len(st.fwd) != len(ref) {
		return "forward"
	}
	for i, c := range ref {
		if st.fwd[i] != c.tok {
			return "forward"
		}
	}
	if len(st.bwd) != len(ref) {
		return "backward"
	}
	for i := range ref {
		if st.bwd[i] != ref[len(ref)-1-i].tok {
			return "backward"
		}
	}
	return ""
}

func genOps(r *rng, kinds []string, length int, iriOnly bool) []c18op {
	var ops []c18op
	n := 0
	for len(ops) < length {
		kind := "IRI"
		if !iriOnly && len(kinds) > 0 {
			kind = kinds[r.intn(len(kinds))]
		}
		o := c18op{kind: kind, n: len(ops)*3 + r.intn(3), gen: r.chance(1, 3)}
		switch c := r.intn(10); {
		case c < 2 || n == 0:
			o.op = "append"
			n++
		case c < 4:
			o.op = "prepend"
			n++
		case c < 6:
			o.op, o.i = "insert", r.intn(n+1)
			n++
		case c < 7:
			o.op, o.i = "set", r.intn(n)
		case c < 9:
			o.op, o.i = "remove", r.intn(n)
			n--
		default:
			o.op, o.i, o.j = "swap", r.intn(n), r.intn(n)
		}
		ops = append(ops, o)
	}
	return ops
}

func opString(o c18op) string {
	if o.gen {
		return fmt.Sprintf("%s(%d,%d,%s through the generic Type entry point,%d)", o.op, o.i, o.j, o.kind, o.n)
	}
	return fmt.Sprintf("%s(%d,%d,%s,%d)", o.op, o.i, o.j, o.kind, o.n)
}

func runC18() {
	r := &rng{s: *seed}
	s := &Summary{Rule: "every generated non-functional property: all operation sequences up to length 3 over {append, prepend, insert i, set i, remove i, swap i j} (i,j<=2) on IRI values, random sequences up to length 40 over every kind the property admits; every functional property: all set/clear sequences up to length 4 over up to 5 kinds; each state projected to (Len, At kinds+values, forward, backward, Serialize) and compared with a plain list / single slot; non-trivial = contains a shifting operation (prepend/insert/remove/swap) followed by iteration, or a set after a set of another kind", Dist: map[string]interface{}{}}
	seen := map[string]bool{}
	mismatch := map[string]int{}
	nNF, nF, nGeneric := 0, 0, 0
	var coqCases []string
	type bad struct {
		prop string
		ops  []c18op
		proj string
	}
	var firstBad []bad
	report := func(prop string, ops []c18op, proj string) {
		mismatch[proj]++
		if len(firstBad) < 40 {
			firstBad = append(firstBad, bad{prop, append([]c18op{}, ops...), proj})
		}
	}
	runSeq := func(pr propRow, ops []c18op, toCoq bool) {
		defer func() {
			if rec := recover(); rec != nil {
				report(pr.Name, ops, fmt.Sprintf("panic(%v)", rec))
			}
		}()
		p := pr.New()
		var ref []refCell
		var tokIDs = map[string]int{}
		tid := func(t string) int {
			if v, ok := tokIDs[t]; ok {
				return v
			}
			tokIDs[t] = len(tokIDs) + 1
			return len(tokIDs)
		}
		var coqOps []string
		for k, o := range ops {
			ok, tok, _ := applyNF(p, o)
			if !ok {
				return
			}
			ref = applyRef(ref, o, tok)
			switch o.op {
			case "append":
				coqOps = append(coqOps, fmt.Sprintf("OAppend nat %d", tid(tok)))
			case "prepend":
				coqOps = append(coqOps, fmt.Sprintf("OPrepend nat %d", tid(tok)))
			case "insert":
				coqOps = append(coqOps, fmt.Sprintf("OInsert nat %d %d", o.i, tid(tok)))
			case "set":
				coqOps = append(coqOps, fmt.Sprintf("OSet nat %d %d", o.i, tid(tok)))
			case "remove":
				coqOps = append(coqOps, fmt.Sprintf("ORemove nat %d", o.i))
			case "swap":
				coqOps = append(coqOps, fmt.Sprintf("OSwap nat %d %d", o.i, o.j))
			}
			st := observeNF(p)
			s.Evaluations++
			if d := compareRef(st, ref); d != "" {
				report(pr.Name, ops[:k+1], d)
			}
			if k == len(ops)-1 {
				key := pr.Name + fmt.Sprint(ops)
				shifting := false
				for _, oo := range ops {
					if oo.op != "append" && oo.op != "set" {
						shifting = true
					}
				}
				if shifting && !seen[key] {
					seen[key] = true
					s.Distinct++
				}
				if toCoq {
					ids := func(l []string) string {
						var q []int
						for _, t := range l {
							q = append(q, tid(t))
						}
						return coqNats(q)
					}
					var ats []string
					for _, c := range st.at {
						ats = append(ats, c.tok)
					}
					coqCases = append(coqCases, fmt.Sprintf(" (%s, [%s], (%s, %s, %s))", coqStr(pr.Name), strings.Join(coqOps, "; "), ids(ats), ids(st.fwd), ids(st.bwd)))
				}
			}
		}
	}
	small := []c18op{{op: "append"}, {op: "prepend"}}
	for i := 0; i <= 2; i++ {
		small = append(small, c18op{op: "insert", i: i}, c18op{op: "set", i: i}, c18op{op: "remove", i: i})
	}
	small = append(small, c18op{op: "swap", i: 0, j: 1}, c18op{op: "swap", i: 0, j: 2}, c18op{op: "swap", i: 1, j: 2})
	valid := func(seq []c18op) bool {
		n := 0
		for _, o := range seq {
			switch o.op {
			case "append", "prepend":
				n++
			case "insert":
				if o.i > n {
					return false
				}
				n++
			case "set":
				if o.i >= n {
					return false
				}
			case "remove":
				if o.i >= n {
					return false
				}
				n--
			case "swap":
				if o.i >= n || o.j >= n {
					return false
				}
			}
		}
		return true
	}
	maxLen := 3
	nRand := 6
	if *tier == "thorough" {
		maxLen = 4
		nRand = 60
	}
	var enum func(prefix []c18op, depth int, f func([]c18op))
	enum = func(prefix []c18op, depth int, f func([]c18op)) {
		if depth == 0 {
			return
		}
		for _, o := range small {
			o.kind = "IRI"
			o.n = len(prefix)
			seq := append(append([]c18op{}, prefix...), o)
			if !valid(seq) {
				continue
			}
			if depth == 1 {
				f(seq)
			}
			enum(seq, depth-1, f)
		}
	}
	for _, pr := range propRows {
		if pr.Functional {
			continue
		}
		nNF++
		kinds := kindsOf(pr.New(), false)
		hasIRI := false
		for _, k := range kinds {
			if k == "IRI" {
				hasIRI = true
			}
		}
		if hasIRI {
			for d := 1; d <= maxLen; d++ {
				enum(nil, d, func(seq []c18op) { runSeq(pr, seq, false) })
			}
		}
		for i := 0; i < nRand; i++ {
			runSeq(pr, genOps(r, kinds, 5+r.intn(36), false), i < 3)
		}
		// the generic entry points (AppendType / PrependType / InsertType / SetType) at every position of a three-element list
		for _, k := range kinds {
			if m := reflect.ValueOf(pr.New()).MethodByName("Append" + k); !m.IsValid() || m.Type().In(0).Kind() != reflect.Interface {
				continue
			}
			base := []c18op{{op: "append", kind: k, n: 1}, {op: "append", kind: k, n: 2, gen: true}, {op: "append", kind: k, n: 3}}
			for i := 0; i <= 3; i++ {
				if i < 3 {
					runSeq(pr, append(append([]c18op{}, base...), c18op{op: "set", i: i, kind: k, n: 7, gen: true}), false)
					runSeq(pr, append(append([]c18op{}, base...), c18op{op: "set", i: i, kind: k, n: 7, gen: true}, c18op{op: "remove", i: 0}), false)
				}
				runSeq(pr, append(append([]c18op{}, base...), c18op{op: "insert", i: i, kind: k, n: 8, gen: true}), false)
			}
			runSeq(pr, append(append([]c18op{}, base...), c18op{op: "prepend", kind: k, n: 9, gen: true}), false)
			nGeneric++
			break
		}
	}
	// functional properties: set / clear histories
	for _, pr := range propRows {
		if !pr.Functional {
			continue
		}
		nF++
		kinds := kindsOf(pr.New(), true)
		if len(kinds) > 5 {
			// keep IRI plus a spread of the others
			keep := []string{}
			for _, k := range kinds {
				if k == "IRI" {
					keep = append(keep, k)
				}
			}
			for len(keep) < 5 {
				keep = append(keep, kinds[r.intn(len(kinds))])
			}
			kinds = keep
		}
		alphabet := append(append([]string{}, kinds...), "<clear>")
		var rec func(seq []string)
		rec = func(seq []string) {
			if len(seq) > 0 {
				p := pr.New()
				v := reflect.ValueOf(p)
				wantKind, wantTok := "<none>", ""
				okAll := true
				for k, a := range seq {
					if a == "<clear>" {
						v.MethodByName("Clear").Call(nil)
						wantKind, wantTok = "<none>", ""
						continue
					}
					name := "Set" + a
					m := v.MethodByName(name)
					if !m.IsValid() {
						m = v.MethodByName("Set")
					}
					val, ok := makeValue(m.Type().In(0), k)
					if !ok {
						okAll = false
						break
					}
					if m.Type().In(0).Kind() == reflect.Interface && k%2 == 1 {
						if gm := v.MethodByName("SetType"); gm.IsValid() {
							m = gm // every other typed value goes through the generic entry point
						}
					}
					if out := m.Call([]reflect.Value{val}); len(out) == 1 && !out[0].IsNil() {
						report(pr.Name, nil, "slot-set-refused:"+strings.Join(seq, ","))
					}
					wantKind, wantTok = a, tokenOf(val)
				}
				if okAll {
					ks, tok := elemState(p)
					s.Evaluations++
					got := strings.Join(ks, "+")
					ser := v.MethodByName("Serialize").Call(nil)[0].Interface()
					switch {
					case wantKind == "<none>" && (got != "" || ser != nil):
						report(pr.Name, nil, "slot-clear:"+strings.Join(seq, ","))
					case wantKind != "<none>" && ((wantKind != "" && !sameKind(got, wantKind)) || (wantKind == "" && len(ks) != 1) || tok != wantTok || ser == nil):
						report(pr.Name, nil, "slot-set:"+strings.Join(seq, ","))
					}
					if len(seq) > 1 {
						key := pr.Name + strings.Join(seq, ",")
						if !seen[key] {
							seen[key] = true
							s.Distinct++
						}
					}
				}
			}
			if len(seq) < 4 {
				for _, a := range alphabet {
					rec(append(append([]string{}, seq...), a))
				}
			}
		}
		rec(nil)
	}
	// direct (Go-side, plain-list oracle) mismatches become violations with replay
	for _, b := range firstBad {
		var os []string
		for _, o := range b.ops {
			os = append(os, opString(o))
		}
		sig := "C18:" + b.proj
		hasSwap := false
		for _, o := range b.ops {
			if o.op == "swap" {
				hasSwap = true
			}
		}
		if hasSwap && (b.proj == "forward" || b.proj == "backward") {
			sig = "C18:swap-iteration"
		} else if strings.HasPrefix(b.proj, "slot-") {
			sig = "C18:slot:" + b.prop
		} else {
			sig = "C18:" + b.proj + ":" + b.prop
		}
		s.Violations = append(s.Violations, Violation{What: fmt.Sprintf("property %s: %s differs from the plain list/slot after %v", b.prop, b.proj, os), Sig: sig, Replay: map[string]interface{}{"property": b.prop, "ops": os, "projection": b.proj}})
	}
	var b strings.Builder
	b.WriteString("From Coq Require Import String List.\nFrom Verif Require Import Streams.Container.\nImport ListNotations.\nOpen Scope string_scope.\n")
	b.WriteString("(* (property, operations with value tokens, observed (At values, forward iteration, backward iteration)) *)\n")
	b.WriteString("Definition observed : list (string * list (op nat) * (list nat * list nat * list nat)) := [\n")
	b.WriteString(strings.Join(coqCases, ";\n"))
	b.WriteString("\n].\n")
	writeFile("observed.v", []byte(b.String()))
	s.Dist["non_functional_properties"] = nNF
	s.Dist["functional_properties"] = nF
	s.Dist["properties_swept_through_generic_entry_points"] = nGeneric
	s.Dist["mismatch_by_projection"] = mismatch
	s.Dist["coq_judged_sequences"] = len(coqCases)
	if len(coqCases) > 0 {
		s.Samples = append(s.Samples, coqCases[0], coqCases[len(coqCases)-1])
	}
	writeSummary(s)
}
