package main

// C01: documents derived from the grammar of the shipped vocabularies, decoded and encoded again by the real
// library (streams.ToType + streams.Serialize); the Coq side runs the codec model on the same documents.

import (
	"context"
	"encoding/json"
	"fmt"
	"strings"

	"github.com/go-fed/activity/streams"
)

type c01gen struct {
	r     *rng
	t     *tables
	types map[string]*tblType
	props map[string]*tblProp
}

func propJSONName(goName string) string {
	pn := goName
	for _, pre := range []string{"ActivityStreams", "ForgeFed", "Toot", "W3IDSecurityV1", "JSONLD"} {
		pn = strings.TrimPrefix(pn, pre)
	}
	if pn == "" {
		return ""
	}
	return strings.ToLower(pn[:1]) + pn[1:]
}

func (g *c01gen) literal(kind string, canonical bool) interface{} {
	r := g.r
	switch kind {
	case "string", "bcp47", "rfc2045", "rfc5988":
		return pick(r, []string{"plain text", "en", "text/html", "a b c", "", "ünïcode"})
	case "anyURI":
		return pick(r, []string{"https://example.com/a", "http://other.example:8080/x/y?q=1#f", "urn:isbn:0451450523", "mailto:a@example.com"})
	case "boolean":
		if !canonical && r.chance(1, 2) {
			return float64(r.intn(2))
		}
		return r.chance(1, 2)
	case "float":
		return float64(r.intn(2000) - 1000)
	case "nonNegativeInteger":
		return float64(r.intn(5000))
	case "langString":
		m := map[string]interface{}{}
		for i := 0; i < r.intn(4); i++ { // sometimes the empty map
			m[pick(r, []string{"en", "fr", "de", "ja"})] = fmt.Sprintf("text %d", r.intn(100))
		}
		return m
	case "dateTime":
		if !canonical && r.chance(1, 2) {
			return pick(r, []string{"2020-02-03T04:05:06+00:00", "2020-02-03T04:05Z", "2021-12-31T23:59:59-00:00"})
		}
		return pick(r, []string{"2020-02-03T04:05:06Z", "1999-12-31T23:59:59Z", "2024-02-29T00:00:00+05:30", "2016-05-17T08:30:00-07:00"})
	case "duration":
		if !canonical && r.chance(1, 2) {
			return pick(r, []string{"P40D", "PT90M", "PT3600S", "P12M", "PT0S"})
		}
		return pick(r, []string{"PT5S", "P1DT2H3M4S", "P1Y2M3D", "-PT30M", "P2Y", "PT1H"})
	}
	return "?"
}

func kindOfMember(m tblMember) (string, bool) { // (kind, isType)
	k := m.Kind
	if strings.HasPrefix(k, "@") {
		return k[1:], false
	}
	return k, true
}

func (g *c01gen) value(p *tblProp, depth int, canonical bool) interface{} {
	r := g.r
	var opts []tblMember
	opts = append(opts, p.Members...)
	n := r.intn(len(opts) + 1)
	if n == len(opts) || len(opts) == 0 {
		if p.Name == "id" || p.Name == "type" {
			return "https://example.com/id/" + fmt.Sprint(r.intn(1000))
		}
		return pick(r, []string{"https://example.com/iri/1", "https://remote.example/users/x", "https://www.w3.org/ns/activitystreams#Public"})
	}
	m := opts[n]
	switch m.Kind {
	case "@string", "@bcp47", "@rfc2045", "@rfc5988":
		return g.literal(m.Kind[1:], canonical)
	case "@anyuri":
		return g.literal("anyURI", canonical)
	case "@boolean":
		return g.literal("boolean", canonical)
	case "@float":
		return g.literal("float", canonical)
	case "@nonnegativeinteger":
		return g.literal("nonNegativeInteger", canonical)
	case "@langstring":
		return g.literal("langString", canonical)
	case "@datetime":
		return g.literal("dateTime", canonical)
	case "@duration":
		return g.literal("duration", canonical)
	}
	if depth <= 0 {
		return "https://example.com/too/deep"
	}
	if ty, ok := g.types[m.Kind]; ok && !ty.Typeless {
		return g.doc(ty, depth-1, canonical, false)
	}
	return "https://example.com/iri/2"
}

func (g *c01gen) unknownValue(depth int, canonical bool) interface{} {
	r := g.r
	switch r.intn(7) {
	case 0:
		return float64(r.intn(100))
	case 1:
		return "an extension string"
	case 2:
		return []interface{}{"x", float64(2), map[string]interface{}{"k": "v"}}
	case 3:
		m := map[string]interface{}{"nested": map[string]interface{}{"deep": []interface{}{float64(1), float64(2)}}, "s": "t"}
		if !canonical && r.chance(1, 2) {
			m["@context"] = "https://example.com/ctx"
		}
		return m
	case 4:
		if canonical {
			return true
		}
		return nil
	case 5:
		return []interface{}{}
	}
	return map[string]interface{}{"type": "SomethingUnknown", "id": "https://example.com/u"}
}

func (g *c01gen) doc(ty *tblType, depth int, canonical, top bool) map[string]interface{} {
	r := g.r
	d := map[string]interface{}{"type": ty.Name}
	if top {
		d["@context"] = allContexts
	}
	if r.chance(3, 4) {
		d["id"] = fmt.Sprintf("https://example.com/%s/%d", strings.ToLower(ty.Name), r.intn(1000))
	}
	nprops := r.intn(6)
	for i := 0; i < nprops; i++ {
		f := ty.Fields[r.intn(len(ty.Fields))]
		pn := propJSONName(f.GoName)
		p, ok := g.props[pn]
		if !ok || pn == "type" || pn == "id" {
			continue
		}
		if p.Functional {
			d[pn] = g.value(p, depth, canonical)
			continue
		}
		n := 1 + r.intn(4)
		var l []interface{}
		for j := 0; j < n; j++ {
			l = append(l, g.value(p, depth, canonical))
		}
		var v interface{} = l
		if len(l) == 1 && (canonical || r.chance(1, 2)) {
			v = l[0]
		}
		key := pn
		if p.HasMap {
			if m, isMap := v.(map[string]interface{}); isMap {
				_ = m
				key = pn + "Map" // a single language map is written under the Map spelling
			}
		}
		d[key] = v
	}
	for i := 0; i < r.intn(3); i++ {
		d[pick(r, []string{"ext:custom", "x-vendor", "schema:name", "unknownMember", "zzz"})] = g.unknownValue(depth, canonical)
	}
	// natural-language properties in every spelling
	if r.chance(1, 2) {
		for _, f := range ty.Fields {
			pn := propJSONName(f.GoName)
			if p, ok := g.props[pn]; ok && p.HasMap && r.chance(1, 2) {
				delete(d, pn)
				delete(d, pn+"Map")
				switch r.intn(5) {
				case 0:
					d[pn] = "plain " + pn
				case 1:
					d[pn+"Map"] = map[string]interface{}{"en": "one", "fr": "un"}
				case 2:
					d[pn+"Map"] = map[string]interface{}{}
				case 3:
					d[pn] = []interface{}{"first", map[string]interface{}{"de": "zwei"}, map[string]interface{}{}}
				case 4:
					d[pn] = []interface{}{"a", "b"}
				}
			}
		}
	}
	// members spelled like frequent properties of the vocabulary that this type does not have: extension members like any other
	{
		has := map[string]bool{}
		for _, f := range ty.Fields {
			has[propJSONName(f.GoName)] = true
		}
		for _, pn := range []string{"object", "items", "orderedItems", "actor", "target", "owner", "publicKeyPem", "href"} {
			if !has[pn] && r.chance(1, 2) {
				if _, used := d[pn]; !used {
					d[pn] = pick(r, []string{"https://example.com/withheld", "plain"})
				}
			}
		}
	}
	// a member spelled like a property of the vocabulary that this type does not have: an extension member like any other
	if r.chance(1, 2) {
		has := map[string]bool{}
		for _, f := range ty.Fields {
			has[propJSONName(f.GoName)] = true
		}
		for tries := 0; tries < 6; tries++ {
			p := g.t.Props[r.intn(len(g.t.Props))]
			if !has[p.Name] && p.Name != "id" && p.Name != "type" {
				if _, used := d[p.Name]; !used {
					d[p.Name] = pick(r, []string{"https://example.com/not/mine", "plain"})
				}
				break
			}
		}
	}
	if !canonical {
		switch r.intn(8) {
		case 0: // both spellings of a natural-language property
			d["name"] = "both"
			d["nameMap"] = map[string]interface{}{"en": "spellings"}
		case 1: // a null for a known property
			d["summary"] = nil
		case 2: // an array directly inside an array
			d["to"] = []interface{}{[]interface{}{"https://example.com/nested"}}
		case 3: // type given as an array
			d["type"] = []interface{}{ty.Name, "ext:Extra"}
		case 4:
			d["nameMap"] = "a plain string under the Map spelling"
		}
	}
	return d
}

func runC01() {
	r := &rng{s: *seed}
	t := loadTables()
	g := &c01gen{r: r, t: t, types: map[string]*tblType{}, props: map[string]*tblProp{}}
	for i := range t.Types {
		g.types[t.Types[i].Name] = &t.Types[i]
	}
	for i := range t.Props {
		g.props[t.Props[i].Name] = &t.Props[i]
	}
	em := newEmitter()
	s := &Summary{Rule: "documents derived from the tables of the four shipped vocabularies: every type, random known properties with values of every kind of their range (IRI, each literal kind, embedded objects to depth 3, lists of 1..4), natural-language maps, the four contexts, unknown members (numbers, strings, arrays, nested objects, nulls); a canonical stream and a non-canonical one (single-element arrays, +00:00 / minute-precision timestamps, non-normal durations, 0/1 booleans, nulls, both spellings, nested arrays, type arrays, nested @context)", Dist: map[string]interface{}{}}
	per := 6
	if *tier != "quick" {
		per = 120
	}
	var cases []string
	var meta []interface{}
	accepted, rejected := 0, 0
	for _, ty := range t.Types {
		if ty.Typeless {
			continue
		}
		ty := ty
		for i := 0; i < per; i++ {
			canonical := i%2 == 0
			d := g.doc(&ty, 3, canonical, true)
			b, _ := json.Marshal(d)
			var m map[string]interface{}
			_ = json.Unmarshal(b, &m)
			var out, out2 interface{}
			rtOnce := func(m map[string]interface{}) (res interface{}) {
				defer func() {
					if p := recover(); p != nil {
						res = map[string]interface{}{"<panic>": fmt.Sprint(p)}
					}
				}()
				v, err := streams.ToType(context.Background(), m)
				if err != nil {
					return nil
				}
				o, err := streams.Serialize(v)
				if err != nil {
					return nil
				}
				ob, _ := json.Marshal(o)
				var om map[string]interface{}
				_ = json.Unmarshal(ob, &om)
				return om
			}
			func() {
				defer func() {
					if p := recover(); p != nil {
						out = map[string]interface{}{"<panic>": fmt.Sprint(p)}
					}
				}()
				v, err := streams.ToType(context.Background(), m)
				if err != nil {
					return
				}
				o, err := streams.Serialize(v)
				if err != nil {
					return
				}
				ob, _ := json.Marshal(o)
				var om map[string]interface{}
				_ = json.Unmarshal(ob, &om)
				out = om
			}()
			if om, ok := out.(map[string]interface{}); ok {
				ob, _ := json.Marshal(om)
				var again map[string]interface{}
				_ = json.Unmarshal(ob, &again)
				out2 = rtOnce(again)
			}
			var b2 map[string]interface{}
			_ = json.Unmarshal(b, &b2)
			out2S := "None"
			if out2 != nil {
				out2S = "(Some " + em.json(out2, true) + ")"
			}
			outS := "None"
			if out != nil {
				outS = "(Some " + em.json(out, true) + ")"
				accepted++
			} else {
				rejected++
			}
			cases = append(cases, fmt.Sprintf("(%s, %s, %s, %s)", coqBool(canonical), em.json(b2, true), outS, out2S))
			meta = append(meta, map[string]interface{}{"type": ty.Name, "canonical": canonical, "document": b2, "round_trip": out})
			s.Evaluations++
		}
	}
	var sb strings.Builder
	sb.WriteString("From Coq Require Import String List ZArith.\nFrom Verif Require Import Base.Json.\nImport ListNotations.\nOpen Scope string_scope.\n")
	sb.WriteString(em.defs.String())
	sb.WriteString("Definition observed : list (bool * json * option json * option json) := [\n" + strings.Join(cases, ";\n") + "\n].\n")
	writeFile("observed.v", []byte(sb.String()))
	s.Distinct = len(cases)
	s.Dist["accepted"] = accepted
	s.Dist["rejected"] = rejected
	s.Extra = map[string]interface{}{"cases": meta}
	writeSummary(s)
	fmt.Printf("c01: %d documents (%d accepted)\n", len(cases), accepted)
}
