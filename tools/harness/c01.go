package main

// C01: documents derived from the grammar of the shipped vocabularies, decoded and encoded again by the real
// library (streams.ToType + streams.Serialize); the Coq side runs the codec model on the same documents.

import (
	"context"
	"encoding/json"
	"fmt"
	"strings"

	"github.com/go-fed/activity/streams"
)

type c01gen struct {
	r     *rng
	t     *tables
	types map[string]*tblType
	props map[string]*tblProp
}

func propJSONName(goName string) string {
	pn := goName
	for _, pre := range []string{"ActivityStreams", "ForgeFed", "Toot", "W3IDSecurityV1", "JSONLD"} {
		pn = strings.TrimPrefix(pn, pre)
	}
	if pn == "" {
		return ""
	}
	return strings.ToLower(pn[:1]) + pn[1:]
}

func (g *c01gen) literal(kind string, canonical bool) interface{} {
	r := g.r
	switch kind {
	case "string", "bcp47", "rfc2045", "rfc5988":
		return pick(r, []string{"plain text", "en", "text/html", "a b c", "", "ünïcode"})
	case "anyURI":
		return pick(r, []string{"https://example.com/a", "http://other.example:8080/x/y?q=1#f", "urn:isbn:0451450523", "mailto:a@example.com", "https://example.com/page?page=true&min_id=0&b=%20x"})
	case "boolean":
		if !canonical && r.chance(1, 2) {
			return float64(r.intn(2))
		}
		return r.chance(1, 2)
	case "float":
		return float64(r.intn(2000) - 1000)
	case "nonNegativeInteger":
		return float64(r.intn(5000))
	case "langString":
		m := map[string]interface{}{}
		n := r.intn(4) // sometimes the empty map (non-canonical stream only)
		if canonical && n == 0 {
			n = 1
		}
		for i := 0; i < n; i++ {
			m[pick(r, []string{"en", "fr", "de", "ja"})] = fmt.Sprintf("text %d", r.intn(100))
		}
		return m
	case "dateTime":
		if !canonical && r.chance(1, 2) {
			return pick(r, []string{"2020-02-03T04:05:06+00:00", "2020-02-03T04:05Z", "2021-12-31T23:59:59-00:00"})
		}
		return pick(r, []string{"2020-02-03T04:05:06Z", "1999-12-31T23:59:59Z", "2024-02-29T00:00:00+05:30", "2016-05-17T08:30:00-07:00"})
	case "duration":
		if !canonical && r.chance(1, 2) {
			return pick(r, []string{"P40D", "PT90M", "PT3600S", "P12M", "PT0S"})
		}
		return pick(r, []string{"PT5S", "P1DT2H3M4S", "P1Y2M3D", "-PT30M", "P2Y", "PT1H"})
	}
	return "?"
}

// normKind: the tables name literal kinds "V:<xsd name>"
func normKind(k string) string {
	if strings.HasPrefix(k, "V:") {
		return "@" + strings.ToLower(k[2:])
	}
	if strings.HasPrefix(k, "T:") { // the struct name of a type: its plain name
		k = k[2:]
		for _, pre := range []string{"ActivityStreams", "ForgeFed", "Toot", "W3IDSecurityV1"} {
			if strings.HasPrefix(k, pre) {
				return k[len(pre):]
			}
		}
	}
	return k
}

type sweepVal struct {
	v         interface{}
	canonical bool
}

// every sample of every literal kind; canonical: the lexical form the statement calls canonical (the round trip is the identity)
var literalSweep = map[string][]sweepVal{
	"@duration": {{"PT5S", true}, {"PT18446744073S", true}, {"P400Y", true}, {"P292Y", true}, {"P1DT2H3M4S", true}, {"P1Y2M3D", true}, {"-PT30M", true}, {"P2Y", true}, {"PT1H", true}, {"P1Y2M", true},
		{"P1Y2M3DT4H5M6S", true}, {"-P2Y11M", true}, {"P11M", true}, {"P1Y11M29DT23H59M59S", true}, {"P3M", true}, {"P1Y1D", true},
		{"P40D", false}, {"PT90M", false}, {"PT3600S", false}, {"P12M", false}, {"P14M", false}, {"-P18M", false}, {"P400D", false}, {"PT0S", false}},
	"@datetime": {{"2020-02-03T04:05:06Z", true}, {"0000-01-15T00:00:00Z", true}, {"0000-02-29T12:00:00Z", true}, {"1999-12-31T23:59:59Z", true}, {"2024-02-29T00:00:00+05:30", true}, {"2016-05-17T08:30:00-07:00", true},
		{"2020-02-03T04:05:06+00:00", false}, {"2020-02-03T04:05Z", false}, {"2021-12-31T23:59:59-00:00", false}},
	"@boolean":            {{true, true}, {false, true}, {float64(0), false}, {float64(1), false}},
	"@float":              {{float64(0), true}, {float64(-1000), true}, {float64(999), true}},
	"@nonnegativeinteger": {{float64(0), true}, {float64(1), true}, {float64(4999), true}},
	"@string":             {{"plain text", true}, {"", true}, {"ünïcode", true}},
	"@anyuri":             {{"https://example.com/a", true}, {"http://other.example:8080/x/y?q=1#f", true}, {"urn:isbn:0451450523", true}, {"mailto:a@example.com", true}, {"https://example.com/page?page=true&min_id=0", true}, {"https://example.com/p?z=1&a=2#frag", true}},
	"@bcp47":              {{"en", true}, {"en-US", true}},
	"@rfc2045":            {{"text/html", true}, {"text/markdown;variant=GFM", true}, {"audio/ogg; codecs=\"opus\"", true}, {"video/WebM", true}, {"text/plain; Charset=UTF-8", true}},
	"@rfc5988":            {{"me", true}},
}

func kindOfMember(m tblMember) (string, bool) { // (kind, isType)
	k := m.Kind
	if strings.HasPrefix(k, "@") {
		return k[1:], false
	}
	return k, true
}

func (g *c01gen) value(p *tblProp, depth int, canonical bool) interface{} {
	r := g.r
	var opts []tblMember
	opts = append(opts, p.Members...)
	n := r.intn(len(opts) + 1)
	if n == len(opts) || len(opts) == 0 {
		if p.Name == "id" || p.Name == "type" {
			return "https://example.com/id/" + fmt.Sprint(r.intn(1000))
		}
		return pick(r, []string{"https://example.com/iri/1", "https://remote.example/users/x", "https://www.w3.org/ns/activitystreams#Public"})
	}
	m := opts[n]
	switch normKind(m.Kind) {
	case "@string", "@bcp47", "@rfc2045", "@rfc5988":
		return g.literal(m.Kind[1:], canonical)
	case "@anyuri":
		return g.literal("anyURI", canonical)
	case "@boolean":
		return g.literal("boolean", canonical)
	case "@float":
		return g.literal("float", canonical)
	case "@nonnegativeinteger":
		return g.literal("nonNegativeInteger", canonical)
	case "@langstring":
		return g.literal("langString", canonical)
	case "@datetime":
		return g.literal("dateTime", canonical)
	case "@duration":
		return g.literal("duration", canonical)
	}
	if depth <= 0 {
		return "https://example.com/too/deep"
	}
	if ty, ok := g.types[normKind(m.Kind)]; ok && !ty.Typeless {
		return g.doc(ty, depth-1, canonical, false)
	}
	return "https://example.com/iri/2"
}

func (g *c01gen) unknownValue(depth int, canonical bool) interface{} {
	r := g.r
	switch r.intn(7) {
	case 0:
		return float64(r.intn(100))
	case 1:
		return "an extension string"
	case 2:
		return []interface{}{"x", float64(2), map[string]interface{}{"k": "v"}}
	case 3:
		m := map[string]interface{}{"nested": map[string]interface{}{"deep": []interface{}{float64(1), float64(2)}}, "s": "t"}
		if !canonical && r.chance(1, 2) {
			m["@context"] = "https://example.com/ctx"
		}
		return m
	case 4:
		if canonical {
			return true
		}
		return nil
	case 5:
		return []interface{}{}
	}
	return map[string]interface{}{"type": "SomethingUnknown", "id": "https://example.com/u"}
}

func (g *c01gen) doc(ty *tblType, depth int, canonical, top bool) map[string]interface{} {
	r := g.r
	d := map[string]interface{}{"type": ty.Name}
	if top {
		d["@context"] = allContexts
	}
	if r.chance(3, 4) {
		d["id"] = fmt.Sprintf("https://example.com/%s/%d", strings.ToLower(ty.Name), r.intn(1000))
		if r.chance(1, 4) { // a query whose parameters are not in alphabetical order, a fragment
			d["id"] = d["id"].(string) + "?page=true&min_id=0#top"
		}
	}
	if r.chance(1, 3) { // <name>Map of a property that is no natural-language one: an extension member like any other
		f := ty.Fields[r.intn(len(ty.Fields))]
		pn := propJSONName(f.GoName)
		if p, ok := g.props[pn]; ok && !p.HasMap && pn != "" {
			d[pn+"Map"] = "not a language map"
		}
	}
	nprops := r.intn(6)
	if !top {
		nprops = r.intn(3) // embedded values stay small: the documents grow with the product over the levels
	}
	for i := 0; i < nprops; i++ {
		f := ty.Fields[r.intn(len(ty.Fields))]
		pn := propJSONName(f.GoName)
		p, ok := g.props[pn]
		if !ok || pn == "type" || pn == "id" {
			continue
		}
		if _, dup := d[pn]; dup {
			continue
		}
		if _, dup := d[pn+"Map"]; dup {
			continue
		}
		if p.Functional {
			v := g.value(p, depth, canonical)
			if _, isMap := v.(map[string]interface{}); isMap && p.HasMap {
				if _, typed := v.(map[string]interface{})["type"]; !typed {
					d[pn+"Map"] = v // a language map is written under the Map spelling
					continue
				}
			}
			d[pn] = v
			continue
		}
		n := 1 + r.intn(4)
		if !top {
			n = 1 + r.intn(2)
		}
		var l []interface{}
		for j := 0; j < n; j++ {
			l = append(l, g.value(p, depth, canonical))
		}
		var v interface{} = l
		if len(l) == 1 && (canonical || r.chance(1, 2)) {
			v = l[0]
		}
		key := pn
		if p.HasMap {
			if m, isMap := v.(map[string]interface{}); isMap {
				if _, typed := m["type"]; !typed {
					key = pn + "Map" // a single language map is written under the Map spelling
				}
			}
		}
		d[key] = v
	}
	for i := 0; i < r.intn(3); i++ {
		d[pick(r, []string{"ext:custom", "x-vendor", "schema:name", "unknownMember", "zzz"})] = g.unknownValue(depth, canonical)
	}
	// natural-language properties in every spelling
	if r.chance(1, 2) {
		for _, f := range ty.Fields {
			pn := propJSONName(f.GoName)
			if p, ok := g.props[pn]; ok && p.HasMap && r.chance(1, 2) {
				delete(d, pn)
				delete(d, pn+"Map")
				switch r.intn(5) {
				case 0:
					d[pn] = "plain " + pn
				case 1:
					d[pn+"Map"] = map[string]interface{}{"en": "one", "fr": "un"}
				case 2:
					d[pn+"Map"] = map[string]interface{}{}
				case 3:
					d[pn] = []interface{}{"first", map[string]interface{}{"de": "zwei"}, map[string]interface{}{}}
				case 4:
					d[pn] = []interface{}{"a", "b"}
				}
			}
		}
	}
	// members spelled like frequent properties of the vocabulary that this type does not have: extension members like any other
	{
		has := map[string]bool{}
		for _, f := range ty.Fields {
			has[propJSONName(f.GoName)] = true
		}
		for _, pn := range []string{"object", "items", "orderedItems", "actor", "target", "owner", "publicKeyPem", "href"} {
			if !has[pn] && r.chance(1, 2) {
				if _, used := d[pn]; !used {
					d[pn] = pick(r, []string{"https://example.com/withheld", "plain"})
				}
			}
		}
	}
	// a member spelled like a property of the vocabulary that this type does not have: an extension member like any other
	if r.chance(1, 2) {
		has := map[string]bool{}
		for _, f := range ty.Fields {
			has[propJSONName(f.GoName)] = true
		}
		for tries := 0; tries < 6; tries++ {
			p := g.t.Props[r.intn(len(g.t.Props))]
			if !has[p.Name] && p.Name != "id" && p.Name != "type" {
				if _, used := d[p.Name]; !used {
					d[p.Name] = pick(r, []string{"https://example.com/not/mine", "plain"})
				}
				break
			}
		}
	}
	if !canonical {
		switch r.intn(8) {
		case 0: // both spellings of a natural-language property
			d["name"] = "both"
			d["nameMap"] = map[string]interface{}{"en": "spellings"}
		case 1: // a null for a known property
			d["summary"] = nil
		case 2: // an array directly inside an array
			d["to"] = []interface{}{[]interface{}{"https://example.com/nested"}}
		case 3: // type given as an array
			d["type"] = []interface{}{ty.Name, "ext:Extra"}
		case 4:
			d["nameMap"] = "a plain string under the Map spelling"
		}
	}
	return d
}

func runC01() {
	r := &rng{s: *seed}
	t := loadTables()
	g := &c01gen{r: r, t: t, types: map[string]*tblType{}, props: map[string]*tblProp{}}
	for i := range t.Types {
		g.types[t.Types[i].Name] = &t.Types[i]
	}
	for i := range t.Props {
		g.props[t.Props[i].Name] = &t.Props[i]
	}
	K := *pubShards
	if K < 1 {
		K = 1
	}
	ems := make([]*emitter, K)
	for k := range ems {
		ems[k] = newEmitter()
	}
	shardCases := make([][]string, K)
	shardIdx := make([][]int, K)
	s := &Summary{Rule: "documents derived from the tables of the four shipped vocabularies: every type, random known properties with values of every kind of their range (IRI, each literal kind, embedded objects to depth 3, lists of 1..4), natural-language maps, the four contexts, unknown members (numbers, strings, arrays, nested objects, nulls); a canonical stream and a non-canonical one (single-element arrays, +00:00 / minute-precision timestamps, non-normal durations, 0/1 booleans, nulls, both spellings, nested arrays, type arrays, nested @context)", Dist: map[string]interface{}{}}
	per := 6
	if *tier != "quick" {
		per = 120
	}
	var cases []string
	var meta []interface{}
	accepted, rejected := 0, 0
	process := func(tyName string, canonical bool, d map[string]interface{}) {
		shard := len(cases) % K
		em := ems[shard]
		b, _ := json.Marshal(d)
		var m map[string]interface{}
		_ = json.Unmarshal(b, &m)
		var out, out2 interface{}
		rtOnce := func(m map[string]interface{}) (res interface{}) {
			defer func() {
				if p := recover(); p != nil {
					res = map[string]interface{}{"<panic>": fmt.Sprint(p)}
				}
			}()
			v, err := streams.ToType(context.Background(), m)
			if err != nil {
				return nil
			}
			o, err := streams.Serialize(v)
			if err != nil {
				return nil
			}
			ob, _ := json.Marshal(o)
			var om map[string]interface{}
			_ = json.Unmarshal(ob, &om)
			return om
		}
		func() {
			defer func() {
				if p := recover(); p != nil {
					out = map[string]interface{}{"<panic>": fmt.Sprint(p)}
				}
			}()
			v, err := streams.ToType(context.Background(), m)
			if err != nil {
				return
			}
			o, err := streams.Serialize(v)
			if err != nil {
				return
			}
			ob, _ := json.Marshal(o)
			var om map[string]interface{}
			_ = json.Unmarshal(ob, &om)
			out = om
		}()
		if om, ok := out.(map[string]interface{}); ok {
			ob, _ := json.Marshal(om)
			var again map[string]interface{}
			_ = json.Unmarshal(ob, &again)
			out2 = rtOnce(again)
		}
		var b2 map[string]interface{}
		_ = json.Unmarshal(b, &b2)
		out2S := "None"
		if out2 != nil {
			out2S = "(Some " + em.json(out2, true) + ")"
		}
		outS := "None"
		if out != nil {
			outS = "(Some " + em.json(out, true) + ")"
			accepted++
		} else {
			rejected++
		}
		shardIdx[shard] = append(shardIdx[shard], len(cases))
		shardCases[shard] = append(shardCases[shard], fmt.Sprintf("(%s, %s, %s, %s)", coqBool(canonical), em.json(b2, true), outS, out2S))
		cases = append(cases, "")
		meta = append(meta, map[string]interface{}{"type": tyName, "canonical": canonical, "document": b2, "round_trip": out})
		s.Evaluations++
	}
	for _, ty := range t.Types {
		if ty.Typeless {
			continue
		}
		ty := ty
		for i := 0; i < per; i++ {
			canonical := i%2 == 0
			process(ty.Name, canonical, g.doc(&ty, 3, canonical, true))
		}
	}
	// sweep 0: a natural-language property holding an object with a nested @context that is no string: no language map for the
	// decoder (kept as it is), a language map once Serialize has deleted the nested @context (finding F24)
	for i, ctxv := range []interface{}{float64(1), []interface{}{"https://www.w3.org/ns/activitystreams"}, map[string]interface{}{"x": "https://example.com/ns#"}} {
		for _, pn := range []string{"name", "summary", "content"} {
			process("Note", false, map[string]interface{}{"@context": allContexts, "type": "Note", "id": fmt.Sprintf("https://example.com/ctxmap/%d", i),
				pn: map[string]interface{}{"@context": ctxv, "en": "x"}})
		}
	}
	// sweep 1: every sample of every literal kind on up to three properties whose range has that kind (one document each)
	holder := func(pn string) *tblType { // a type that has the property
		for i := range t.Types {
			if t.Types[i].Typeless {
				continue
			}
			for _, f := range t.Types[i].Fields {
				if propJSONName(f.GoName) == pn {
					return &t.Types[i]
				}
			}
		}
		return nil
	}
	sweeps := 0
	for kind, samples := range literalSweep {
		used := 0
		for pi := range t.Props {
			p := &t.Props[pi]
			has := false
			for _, m := range p.Members {
				if normKind(m.Kind) == kind {
					has = true
				}
			}
			ty := holder(p.Name)
			if !has || ty == nil || p.Name == "id" || p.Name == "type" || used >= 3 {
				continue
			}
			used++
			for _, sv := range samples {
				d := map[string]interface{}{"@context": allContexts, "type": ty.Name, "id": "https://example.com/sweep/" + fmt.Sprint(sweeps), p.Name: sv.v}
				process(ty.Name, sv.canonical, d)
				sweeps++
			}
		}
	}
	// sweep 1b: contexts written with prefix definitions - ["<ActivityStreams>", {"<prefix>": "<vocabulary IRI>", "<name>":
	// "<prefix>:<name>"}] - and plainly named members of that vocabulary: every member is decoded or kept, none vanishes
	asURI := "https://www.w3.org/ns/activitystreams"
	nPrefixed := 0
	for pi := range t.Props {
		p := &t.Props[pi]
		if p.VocabURI == asURI || p.VocabURI == "" || p.Name == "id" || p.Name == "type" || nPrefixed >= 24 {
			continue
		}
		ty := holder(p.Name)
		if ty == nil {
			continue
		}
		var val interface{}
		for _, m := range p.Members {
			if sv, ok := literalSweep[normKind(m.Kind)]; ok && len(sv) > 0 {
				val = sv[0].v
				break
			}
			if m.Kind == "IRI" {
				val = "https://example.com/prefixed/" + fmt.Sprint(nPrefixed)
			}
		}
		if val == nil {
			continue
		}
		prefix := "v" + fmt.Sprint(nPrefixed%3)
		for _, vocab := range []string{p.VocabURI, p.VocabURI + "#"} {
			ctx := []interface{}{asURI, map[string]interface{}{prefix: vocab, p.Name: prefix + ":" + p.Name}}
			process(ty.Name, false, map[string]interface{}{"@context": ctx, "type": ty.Name, "id": "https://example.com/prefixed/doc/" + fmt.Sprint(nPrefixed), p.Name: val, "name": "plainly named"})
		}
		nPrefixed++
	}
	s.Dist["prefix_definition_contexts"] = nPrefixed
	// sweep 2: a property of one vocabulary on a type of another, holding an IRI / an embedded value of each type kind of its
	// range: the rebuilt @context must name exactly the vocabularies used
	for pi := range t.Props {
		p := &t.Props[pi]
		if p.Name == "id" || p.Name == "type" {
			continue
		}
		parents := 0
		for ti := range t.Types {
			ty := &t.Types[ti]
			if ty.Typeless || ty.VocabURI == p.VocabURI || parents >= 2 {
				continue
			}
			hasField := false
			for _, f := range ty.Fields {
				if propJSONName(f.GoName) == p.Name {
					hasField = true
				}
			}
			if !hasField {
				continue
			}
			parents++
			kinds := 0
			for _, m := range p.Members {
				if strings.HasPrefix(normKind(m.Kind), "@") || m.Kind == "IRI" || kinds >= 2 {
					continue
				}
				if et, ok := g.types[normKind(m.Kind)]; ok && !et.Typeless {
					kinds++
					emb := map[string]interface{}{"type": et.Name, "id": "https://example.com/embedded/" + fmt.Sprint(sweeps)}
					var v interface{} = emb
					d := map[string]interface{}{"@context": allContexts, "type": ty.Name, "id": "https://example.com/sweep/" + fmt.Sprint(sweeps), p.Name: v}
					process(ty.Name, true, d)
					sweeps++
					// the same nested one level down, under an ActivityStreams Create
					process("Create", true, map[string]interface{}{"@context": allContexts, "type": "Create", "id": "https://example.com/sweep/c" + fmt.Sprint(sweeps),
						"object": map[string]interface{}{"type": ty.Name, "id": "https://example.com/sweep/" + fmt.Sprint(sweeps), p.Name: emb}})
					sweeps++
				}
			}
			d := map[string]interface{}{"@context": allContexts, "type": ty.Name, "id": "https://example.com/sweep/" + fmt.Sprint(sweeps), p.Name: "https://example.com/iri/only"}
			process(ty.Name, true, d)
			sweeps++
		}
	}
	// sweep 3: an empty array for every list property (kept as given), at the top and inside an embedded value
	for pi := range t.Props {
		p := &t.Props[pi]
		ty := holder(p.Name)
		if p.Functional || ty == nil || p.Name == "type" || p.Name == "id" {
			continue
		}
		process(ty.Name, true, map[string]interface{}{"@context": allContexts, "type": ty.Name, "id": "https://example.com/sweep/e" + fmt.Sprint(sweeps), p.Name: []interface{}{}})
		sweeps++
		if pi%4 == 0 {
			process("Create", true, map[string]interface{}{"@context": allContexts, "type": "Create", "id": "https://example.com/sweep/ec" + fmt.Sprint(sweeps),
				"object": map[string]interface{}{"type": ty.Name, "id": "https://example.com/sweep/e" + fmt.Sprint(sweeps), p.Name: []interface{}{}}, "ext:null": nil, "x-list": []interface{}{}})
			sweeps++
		}
	}
	s.Dist["sweep_documents"] = sweeps
	for k := 0; k < K; k++ {
		var sb strings.Builder
		sb.WriteString("From Coq Require Import String List ZArith.\nFrom Verif Require Import Base.Json.\nImport ListNotations.\nOpen Scope string_scope.\n")
		sb.WriteString(ems[k].defs.String())
		sb.WriteString("Definition observed : list (bool * json * option json * option json) := [\n" + strings.Join(shardCases[k], ";\n") + "\n].\n")
		if K == 1 {
			writeFile("observed.v", []byte(sb.String()))
		} else {
			writeFile(fmt.Sprintf("shard_%d/observed.v", k), []byte(sb.String()))
			ib, _ := json.Marshal(shardIdx[k])
			writeFile(fmt.Sprintf("shard_%d/index.json", k), ib)
		}
	}
	s.Distinct = len(cases)
	s.Dist["accepted"] = accepted
	s.Dist["rejected"] = rejected
	s.Extra = map[string]interface{}{"cases": meta}
	writeSummary(s)
	fmt.Printf("c01: %d documents (%d accepted)\n", len(cases), accepted)
}
