// harness runs the real go-fed/activity code (whatever is in the working tree
// the module's replace directive points at) on generated inputs and writes the
// observations as Coq terms (cases.v) plus a JSON summary, one sub-command per
// property.
package main

import (
	"encoding/json"
	"flag"
	"fmt"
	"os"
	"path/filepath"
	"strings"
)

var (
	outDir = flag.String("out", "", "output directory")
	seed   = flag.Uint64("seed", 1, "PRNG seed")
	tier   = flag.String("tier", "quick", "quick|thorough")
	replay = flag.String("replay", "", "replay file")
)

// Summary is what every sub-command reports to the driver.
type Summary struct {
	Evaluations int                    `json:"evaluations"`
	Distinct    int                    `json:"distinct_nontrivial"`
	Rule        string                 `json:"rule"`
	Samples     []interface{}          `json:"samples"`
	Dist        map[string]interface{} `json:"distribution"`
	Violations  []Violation            `json:"violations"`
	Exhaustive  bool                   `json:"exhaustive"`
	Extra       map[string]interface{} `json:"extra,omitempty"`
}

type Violation struct {
	What   string      `json:"what"`
	Sig    string      `json:"signature"`
	Replay interface{} `json:"replay"`
}

func writeFile(name string, data []byte) {
	p := filepath.Join(*outDir, name)
	if err := os.MkdirAll(filepath.Dir(p), 0o755); err != nil {
		panic(err)
	}
	if err := os.WriteFile(p, data, 0o644); err != nil {
		panic(err)
	}
}

func writeSummary(s *Summary) {
	if s.Violations == nil {
		s.Violations = []Violation{}
	}
	if s.Samples == nil {
		s.Samples = []interface{}{}
	}
	b, _ := json.MarshalIndent(s, "", " ")
	writeFile("summary.json", b)
}

func coqStr(s string) string { return `"` + strings.ReplaceAll(s, `"`, `""`) + `"` }

func coqBool(b bool) string {
	if b {
		return "true"
	}
	return "false"
}

// splitmix64: every random choice derives from this one state.
type rng struct{ s uint64 }

func (r *rng) next() uint64 {
	r.s += 0x9e3779b97f4a7c15
	z := r.s
	z = (z ^ (z >> 30)) * 0xbf58476d1ce4e5b9
	z = (z ^ (z >> 27)) * 0x94d049bb133111eb
	return z ^ (z >> 31)
}
func (r *rng) intn(n int) int {
	if n <= 0 {
		return 0
	}
	return int(r.next() % uint64(n))
}
func (r *rng) chance(num, den int) bool { return r.intn(den) < num }

func main() {
	if len(os.Args) < 2 {
		fmt.Fprintln(os.Stderr, "usage: harness <property> [flags]")
		os.Exit(2)
	}
	cmd := os.Args[1]
	flag.CommandLine.Parse(os.Args[2:])
	if *outDir == "" {
		*outDir = filepath.Join("/verif/run", strings.ToUpper(cmd))
	}
	switch cmd {
	case "c13":
		runC13()
	case "c14":
		runC14()
	case "c12":
		runC12()
	case "c18":
		runC18()
	case "pub":
		runPub()
	case "c08":
		runC08()
	case "c19":
		runC19()
	case "c11":
		runC11()
	case "c01":
		runC01()
	case "c20":
		runC20()
	case "urls":
		runURLs()
	default:
		fmt.Fprintln(os.Stderr, "unknown property", cmd)
		os.Exit(2)
	}
}
