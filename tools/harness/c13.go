package main

import (
	"fmt"
	"strings"

	"github.com/go-fed/activity/streams/vocab"
)

// runC13 calls every package-level hierarchy function and the IsExtending
// method on every ordered pair of types and writes the five observed matrices.
func runC13() {
	n := len(hierRows)
	var b strings.Builder
	b.WriteString("(* observations of the real hierarchy functions: (a, b, extends, extended_by, is_or_extends, disjoint, is_extending) *)\n")
	b.WriteString("From Coq Require Import String List.\nImport ListNotations.\nOpen Scope string_scope.\n")
	b.WriteString("Definition observed : list (string * string * (bool * bool * bool * bool * bool)) := [\n")
	s := &Summary{Rule: "all ordered pairs of generated types x {Extends, IsExtendedBy, IsOrExtends, IsDisjointWith, value.IsExtending}; non-trivial = some predicate true with a != b", Exhaustive: true, Dist: map[string]interface{}{}}
	trueCount := map[string]int{}
	first := true
	for _, a := range hierRows {
		va := a.New()
		if va.GetTypeName() != a.Name {
			s.Violations = append(s.Violations, Violation{What: fmt.Sprintf("constructor of %s yields %s", a.Name, va.GetTypeName()), Sig: "C13 constructor-name", Replay: a.Name})
		}
		for _, bb := range hierRows {
			vb := bb.New()
			e, eb, ioe, d, ie := a.Extends(vb), a.ExtendedBy(vb), a.IsOrExtends(vb), a.Disjoint(vb), va.(interface{ IsExtending(vocab.Type) bool }).IsExtending(vb)
			if !first {
				b.WriteString(";\n")
			}
			first = false
			fmt.Fprintf(&b, " (%s, %s, (%s, %s, %s, %s, %s))", coqStr(a.Name), coqStr(bb.Name), coqBool(e), coqBool(eb), coqBool(ioe), coqBool(d), coqBool(ie))
			s.Evaluations += 5
			nt := false
			for k, v := range map[string]bool{"extends": e, "extended_by": eb, "is_or_extends": ioe, "disjoint": d, "is_extending": ie} {
				if v {
					trueCount[k]++
					if a.Name != bb.Name {
						nt = true
					}
				}
			}
			if nt {
				s.Distinct++
				if len(s.Samples) < 5 {
					s.Samples = append(s.Samples, map[string]interface{}{"a": a.Name, "b": bb.Name, "extends": e, "extended_by": eb, "is_or_extends": ioe, "disjoint": d})
				}
			}
		}
	}
	b.WriteString("\n].\n")
	writeFile("observed.v", []byte(b.String()))
	s.Dist["types"] = n
	s.Dist["true_counts"] = trueCount
	writeSummary(s)
}
