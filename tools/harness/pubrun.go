package main

// Scenario = world + configuration + request + fault schedule.  runScenario
// executes the real library on it and returns the recorded trace.

import (
	"bytes"
	"context"
	"encoding/json"
	"fmt"
	"net/http"
	"os"
	"runtime/debug"
	"sort"
	"strconv"
	"strings"

	"github.com/go-fed/activity/pub"
)

type scenario struct {
	Family      string
	Note        string
	Cfg         config
	World       *world
	Entry       string // postinbox postoutbox getinbox getoutbox handler send
	Method      string
	ContentType string
	Accept      string
	Body        jmap // nil with RawBody set = not JSON
	RawBody     string
	Path        string
	Send        jmap
	Faults      []int
	Tags        map[string]bool // features present, for the coverage statistics
	NoReplay    bool            // Go map iteration order can show: judged by the set-level checkers only
	Host        string          // the host the request names (default: the server's own)
	PreHeaders  bool            // the response's header map already holds values of the application's when the library is called
	Pre         *scenario       // an earlier request served by the SAME actor value (its own configuration; not recorded)
	ClockDelta  int64           // of a Pre request: its clock reading relative to the recorded request's
}

func (sc *scenario) hostname() string {
	if sc.Host != "" {
		return sc.Host
	}
	return host
}

type runResult struct {
	Trace    []entry
	Handled  bool
	Result   string // ok err objreq targetreq notfound panic
	PanicMsg string
	NFall    int
	Final    *world
	Statuses []int
	Sent     jmap // the activity Send returned
}

const apContentType = `application/ld+json; profile="https://www.w3.org/ns/activitystreams"`
const host = "example.com"

func copyWorld(w *world) *world {
	b, _ := json.Marshal(w)
	var out world
	_ = json.Unmarshal(b, &out)
	for _, m := range []*map[string]jmap{&out.Store, &out.Inboxes, &out.Outboxes, &out.Followers, &out.Following, &out.Liked} {
		if *m == nil {
			*m = map[string]jmap{}
		}
	}
	for _, m := range []*map[string]string{&out.ActorForOutbox, &out.ActorForInbox, &out.OutboxForInbox, &out.InboxForActor} {
		if *m == nil {
			*m = map[string]string{}
		}
	}
	if out.Owned == nil {
		out.Owned = map[string]bool{}
	}
	if out.Remote == nil {
		out.Remote = map[string]remoteDoc{}
	}
	return &out
}

func pubErrClass(err error) string {
	switch err {
	case nil:
		return "ok"
	case pub.ErrObjectRequired:
		return "objreq"
	case pub.ErrTargetRequired:
		return "targetreq"
	case pub.ErrNotFound:
		return "notfound"
	}
	return "err"
}

func runScenario(sc *scenario) (res runResult) {
	w := copyWorld(sc.World)
	cfg := sc.Cfg
	r := newRecorder(w, &cfg, sc.Faults)
	rw := &recWriter{r: r, h: http.Header{}, digestIdx: -1}
	defer func() {
		if p := recover(); p != nil {
			res.Trace = r.trace
			res.Handled = true
			res.Result = "panic"
			res.PanicMsg = fmt.Sprint(p)
			if os.Getenv("VERIF_STACK") != "" {
				res.PanicMsg += "\n" + string(debug.Stack())
			}
			res.NFall = r.nFall
			res.Final = w
			res.Statuses = rw.Status
			if strings.HasPrefix(res.PanicMsg, "runaway") {
				// unbounded recursion in the library: keep the beginning of the trace only, and do not enumerate faults
				res.Trace = res.Trace[:60]
				res.NFall = 0
			}
		}
	}()
	ctx := context.Background()
	var actor pub.FederatingActor
	exec := func(sc *scenario, rw *recWriter) (handled bool, err error, sent jmap) {
		var body []byte
		if sc.Body != nil {
			body, _ = json.Marshal(sc.Body)
		} else {
			body = []byte(sc.RawBody)
		}
		mkReq := func() *http.Request {
			q, _ := http.NewRequest(sc.Method, "https://"+sc.hostname()+sc.Path, bytes.NewReader(body))
			if sc.ContentType != "" {
				q.Header.Set("Content-Type", sc.ContentType)
			}
			if sc.Accept != "" {
				q.Header.Set("Accept", sc.Accept)
			}
			q.Host = sc.hostname()
			return q
		}
		if actor == nil && sc.Entry != "handler" {
			actor = buildActor(r)
		}
		switch sc.Entry {
		case "postinbox":
			handled, err = actor.PostInbox(ctx, rw, mkReq())
		case "postoutbox":
			handled, err = actor.PostOutbox(ctx, rw, mkReq())
		case "getinbox":
			handled, err = actor.GetInbox(ctx, rw, mkReq())
		case "getoutbox":
			handled, err = actor.GetOutbox(ctx, rw, mkReq())
		case "handler":
			handled, err = pub.NewActivityStreamsHandler(r, r)(ctx, rw, mkReq())
		case "send":
			t, terr := toTyped(sc.Send)
			if terr != nil {
				panic("harness: Send value does not decode: " + terr.Error())
			}
			var act pub.Activity
			act, err = actor.Send(ctx, mustURL("https://"+sc.hostname()+sc.Path), t)
			handled = true
			if err == nil && act != nil {
				sent = ser(act)
			}
		default:
			panic("unknown entry " + sc.Entry)
		}
		return
	}
	if sc.Pre != nil { // served first by the same actor value, under its own configuration, without faults; not part of the trace
		saved, savedFaults := cfg, r.faults
		cfg = sc.Pre.Cfg
		r.faults = nil
		w.Clock += sc.Pre.ClockDelta
		exec(sc.Pre, &recWriter{r: r, h: http.Header{}, digestIdx: -1})
		w.Clock -= sc.Pre.ClockDelta
		cfg = saved
		r.faults = savedFaults
		r.trace = nil
		r.nFall = 0
	}
	if sc.PreHeaders {
		rw.prePopulate()
	}
	handled, err, sent := exec(sc, rw)
	rw.finish()
	if sent != nil {
		res.Sent = sent
	}
	res.Trace = r.trace
	res.Handled = handled
	res.Result = pubErrClass(err)
	res.NFall = r.nFall
	res.Final = w
	res.Statuses = rw.Status
	return
}

// ---------------------------------------------------------------- Coq emission

type emitter struct {
	seqs   []string // C17: indices of the runs that deliver one activity repeatedly
	hist   []string // C05: (initial outbox items, ids of the accepted posts in order, final outbox items)
	worlds []string // C17: (run index, (owned ids, stored values, dereferenceable documents, forwarding depth limit)) before that run
	strs   map[string]int
	jsons  map[string]int
	defs   strings.Builder
	nstr   int
	njs    int
}

func newEmitter() *emitter { return &emitter{strs: map[string]int{}, jsons: map[string]int{}} }

func (e *emitter) str(s string) string {
	if len(s) < 12 {
		return coqStr(s)
	}
	if i, ok := e.strs[s]; ok {
		return fmt.Sprintf("s%d", i)
	}
	e.nstr++
	e.strs[s] = e.nstr
	fmt.Fprintf(&e.defs, "Definition s%d := %s.\n", e.nstr, coqStr(s))
	return fmt.Sprintf("s%d", e.nstr)
}

func (e *emitter) strList(l []string) string {
	q := make([]string, len(l))
	for i, s := range l {
		q[i] = e.str(s)
	}
	return "[" + strings.Join(q, "; ") + "]"
}

// json prints a decoded JSON value as a Coq term with object keys sorted.
func (e *emitter) json(v interface{}, top bool) string {
	if top {
		if m, ok := v.(jmap); ok {
			v = map[string]interface{}(m)
		}
		if _, ok := v.(map[string]interface{}); ok {
			b, _ := json.Marshal(v)
			key := string(b)
			if i, ok := e.jsons[key]; ok {
				return fmt.Sprintf("j%d", i)
			}
			body := e.json(v, false)
			e.njs++
			e.jsons[key] = e.njs
			fmt.Fprintf(&e.defs, "Definition j%d := %s.\n", e.njs, body)
			return fmt.Sprintf("j%d", e.njs)
		}
	}
	switch x := v.(type) {
	case nil:
		return "JNull"
	case bool:
		return "(JBool " + coqBool(x) + ")"
	case float64:
		return "(JNum (" + strconv.FormatInt(int64(x), 10) + ")%Z)"
	case int:
		return "(JNum (" + strconv.Itoa(x) + ")%Z)"
	case string:
		return "(JStr " + e.str(x) + ")"
	case []string:
		q := make([]string, len(x))
		for i, s := range x {
			q[i] = "JStr " + e.str(s)
		}
		return "(JArr [" + strings.Join(q, "; ") + "])"
	case []interface{}:
		q := make([]string, len(x))
		for i, y := range x {
			q[i] = e.json(y, false)
		}
		return "(JArr [" + strings.Join(q, "; ") + "])"
	case map[string]interface{}:
		keys := make([]string, 0, len(x))
		for k := range x {
			keys = append(keys, k)
		}
		sort.Strings(keys)
		q := make([]string, len(keys))
		for i, k := range keys {
			q[i] = "(" + e.str(k) + ", " + e.json(x[k], false) + ")"
		}
		return "(JObj [" + strings.Join(q, "; ") + "])"
	}
	return "(JStr " + e.str(fmt.Sprintf("<unprintable %T>", v)) + ")"
}

func (e *emitter) jsonArgs(args []interface{}) string {
	q := make([]string, len(args))
	for i, a := range args {
		if s, ok := a.(string); ok {
			q[i] = "JStr " + e.str(s)
		} else {
			q[i] = e.json(a, true)
		}
	}
	return "[" + strings.Join(q, "; ") + "]"
}

func (e *emitter) answer(a answer) string {
	switch a.Kind {
	case "ok":
		return "AOk"
	case "err":
		return "AErr"
	case "bool":
		return "ABool " + coqBool(a.B)
	case "iri":
		return "AIri " + e.str(a.S)
	case "none":
		return "ANone"
	case "json":
		return "AJson " + e.json(a.J, true)
	case "iris":
		return "AIris " + e.strList(a.L)
	case "nat":
		return fmt.Sprintf("ANat %d", a.N)
	case "str":
		return "AStr " + e.str(a.S)
	case "z":
		return fmt.Sprintf("AZ (%d)%%Z", a.Z)
	case "notjson":
		return "ANotJson"
	}
	return "AErr"
}

func (e *emitter) entry(x entry) string {
	var ev string
	switch x.Kind {
	case "lock":
		ev = "ELock " + e.str(x.Name)
	case "unlock":
		ev = "EUnlock " + e.str(x.Name)
	case "db":
		ev = "EDb " + e.str(x.Name) + " " + e.jsonArgs(x.Args)
	case "newtransport":
		ev = "ENewTransport " + e.str(x.Name)
	case "deref":
		ev = "EDeref " + e.str(x.Name)
	case "batch":
		ev = "EBatchDeliver " + e.json(x.Args[0], true) + " " + e.strList(x.Strs)
	case "app":
		ev = "EApp " + e.str(x.Name) + " " + e.jsonArgs(x.Args)
	case "writeheader":
		ev = fmt.Sprintf("EWriteHeader %d", x.Num)
	case "setheader":
		ev = "ESetHeader " + e.str(x.Name) + " " + e.str(x.Strs[0])
	case "write":
		if s, ok := x.Args[0].(string); ok {
			ev = "EWrite (JStr " + e.str(s) + ")"
		} else {
			ev = "EWrite " + e.json(x.Args[0], true)
		}
	case "now":
		ev = "ENow"
	}
	return "(" + ev + ", " + e.answer(x.Ans) + ")"
}

func (e *emitter) cfg(c config) string {
	return fmt.Sprintf("{| c_social := %s; c_federating := %s; c_on_follow := %d; c_fed_wrapped := %s; c_fed_other := %s; c_soc_wrapped := %s; c_soc_other := %s |}",
		coqBool(c.Social), coqBool(c.Federating), c.OnFollow, e.strList(c.FedWrapped), e.strList(c.FedOther), e.strList(c.SocWrapped), e.strList(c.SocOther))
}

// run prints one executed scenario as a Coq `run` record.
func (e *emitter) run(sc *scenario, res *runResult) string {
	body := "BNotJson"
	if sc.Body != nil {
		body = "BJson " + e.json(sc.Body, true)
	}
	send := "JNull"
	if sc.Send != nil {
		send = e.json(sc.Send, true)
	}
	tr := make([]string, len(res.Trace))
	for i, x := range res.Trace {
		tr[i] = e.entry(x)
	}
	return fmt.Sprintf("{| u_family := %s; u_cfg := %s; u_entry := %s;\n   u_req := {| r_method := %s; r_content_type := %s; r_accept := %s; r_body := %s; r_id := %s |};\n   u_send := %s;\n   u_trace := [%s];\n   u_handled := %s; u_result := %s; u_replay := %s |}",
		e.str(sc.Family), e.cfg(sc.Cfg), coqStr(sc.Entry), coqStr(sc.Method), e.str(sc.ContentType), e.str(sc.Accept), body, e.str("https://"+sc.hostname()+sc.Path),
		send, strings.Join(tr, ";\n     "), coqBool(res.Handled), coqStr(res.Result), coqBool(!sc.NoReplay))
}

func (e *emitter) file(runs []string) string {
	var b strings.Builder
	b.WriteString("From Coq Require Import String List ZArith.\nFrom Verif Require Import Base.Json Pub.Events Pub.SideEffect Pub.BaseActor Pub.Replay.\nImport ListNotations.\nOpen Scope string_scope.\n")
	b.WriteString(e.defs.String())
	b.WriteString("Definition observed : list run := [\n")
	b.WriteString(strings.Join(runs, ";\n"))
	b.WriteString("\n].\n")
	b.WriteString("Definition sequences : list (list nat) := [\n")
	b.WriteString(strings.Join(e.seqs, ";\n"))
	b.WriteString("\n].\n")
	b.WriteString("Definition worlds : list (nat * (list string * list (string * json) * list (string * ans) * nat)) := [\n")
	b.WriteString(strings.Join(e.worlds, ";\n"))
	b.WriteString("\n].\n")
	b.WriteString("Definition histories : list (list json * list string * list json) := [\n")
	b.WriteString(strings.Join(e.hist, ";\n"))
	b.WriteString("\n].\n")
	return b.String()
}

// world records what the server owned, stored and could dereference before run idx, and the forwarding depth limit
// (C17: the specification's must_forward is evaluated on it).
func (e *emitter) world(idx int, sc *scenario) {
	w := sc.World
	var owned []string
	for k, v := range w.Owned {
		if v {
			owned = append(owned, k)
		}
	}
	sort.Strings(owned)
	var keys []string
	for k := range w.Store {
		keys = append(keys, k)
	}
	sort.Strings(keys)
	st := make([]string, len(keys))
	for i, k := range keys {
		st[i] = "(" + e.str(k) + ", " + e.json(deepCopy(w.Store[k]), true) + ")"
	}
	keys = keys[:0]
	for k := range w.Remote {
		keys = append(keys, k)
	}
	sort.Strings(keys)
	rm := make([]string, len(keys))
	for i, k := range keys {
		d := w.Remote[k]
		a := answer{Kind: "err"}
		switch d.Kind {
		case "doc":
			a = answer{Kind: "json", J: deepCopy(d.Doc)}
		case "notjson":
			a = answer{Kind: "notjson"}
		}
		rm[i] = "(" + e.str(k) + ", " + e.answer(a) + ")"
	}
	e.worlds = append(e.worlds, fmt.Sprintf("(%d, (%s, [%s], [%s], %d))", idx, e.strList(owned), strings.Join(st, "; "), strings.Join(rm, "; "), sc.Cfg.MaxForwarding))
}

// history records one outbox history for the C05 listing theorem.
func (e *emitter) history(init []interface{}, ids []string, final []interface{}) {
	e.hist = append(e.hist, fmt.Sprintf("(%s, %s, %s)", e.jsonList(init), e.strList(ids), e.jsonList(final)))
}

func (e *emitter) jsonList(l []interface{}) string {
	q := make([]string, len(l))
	for i, y := range l {
		q[i] = e.json(y, false)
	}
	return "[" + strings.Join(q, "; ") + "]"
}
