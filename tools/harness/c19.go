package main

// C19: the bundled HttpSigTransport against a recording signer / client, real RSA and HMAC
// signers verified on the captured requests, and concurrent batches (run under -race by the check).

import (
	"bytes"
	"context"
	"crypto"
	"crypto/rand"
	"crypto/rsa"
	"errors"
	"fmt"
	"io/ioutil"
	"net/http"
	"net/url"
	"sort"
	"strings"
	"sync"
	"time"

	"github.com/go-fed/activity/pub"
	"github.com/go-fed/httpsig"
)

type sigCapture struct {
	post    bool
	key     string
	keyID   string
	method  string
	url     string
	headers [][2]string
	body    []byte
	hasBody bool
}

type recSigner struct {
	mu    *sync.Mutex
	post  bool
	calls *[]sigCapture
	fail  map[string]bool // urls for which signing fails
}

func headerPairs(h http.Header) [][2]string {
	var out [][2]string
	for k, vs := range h {
		for _, v := range vs {
			out = append(out, [2]string{k, v})
		}
	}
	sort.Slice(out, func(i, j int) bool { return out[i][0]+"\x00"+out[i][1] < out[j][0]+"\x00"+out[j][1] })
	return out
}

func (s recSigner) SignRequest(pKey crypto.PrivateKey, pubKeyId string, r *http.Request, body []byte) error {
	s.mu.Lock()
	defer s.mu.Unlock()
	c := sigCapture{post: s.post, key: fmt.Sprint(pKey), keyID: pubKeyId, method: r.Method, url: r.URL.String(), headers: headerPairs(r.Header), body: append([]byte(nil), body...), hasBody: body != nil}
	*s.calls = append(*s.calls, c)
	if s.fail[r.URL.String()] {
		return errors.New("signer refuses " + r.URL.String())
	}
	r.Header.Set("Signature", "sig-of-"+r.URL.String())
	if body != nil {
		r.Header.Set("Digest", fmt.Sprintf("len=%d", len(body)))
	}
	return nil
}
func (s recSigner) SignResponse(pKey crypto.PrivateKey, pubKeyId string, r http.ResponseWriter, body []byte) error {
	return errors.New("not used")
}

type doCapture struct {
	method  string
	url     string
	headers [][2]string
	body    []byte
	hasBody bool
}

type outcome struct {
	status int    // 0 = transport error
	msg    string // transport error text
	body   string
}

type recClient struct {
	mu     *sync.Mutex
	calls  *[]doCapture
	script map[string]outcome
	reqs   *[]*http.Request
}

// flakyClient refuses the first failFirst[url] requests for a URL (503) and accepts the later ones after a short wait.
type flakyClient struct {
	mu        *sync.Mutex
	failFirst map[string]int
	posts     int
}

func (c *flakyClient) Do(req *http.Request) (*http.Response, error) {
	if req.Body != nil {
		ioutil.ReadAll(req.Body)
	}
	c.mu.Lock()
	c.posts++
	refuse := c.failFirst[req.URL.String()] > 0
	if refuse {
		c.failFirst[req.URL.String()]--
	}
	c.mu.Unlock()
	if refuse {
		return &http.Response{StatusCode: 503, Status: "503 scripted", Body: ioutil.NopCloser(strings.NewReader("")), Header: http.Header{}}, nil
	}
	time.Sleep(3 * time.Millisecond)
	return &http.Response{StatusCode: 200, Status: "200 scripted", Body: ioutil.NopCloser(strings.NewReader("")), Header: http.Header{}}, nil
}

func (c recClient) Do(req *http.Request) (*http.Response, error) {
	var body []byte
	has := false
	if req.Body != nil {
		body, _ = ioutil.ReadAll(req.Body)
		has = true
	}
	c.mu.Lock()
	*c.calls = append(*c.calls, doCapture{method: req.Method, url: req.URL.String(), headers: headerPairs(req.Header), body: body, hasBody: has})
	if c.reqs != nil {
		cp := req.Clone(context.Background())
		cp.Body = ioutil.NopCloser(bytes.NewReader(body))
		*c.reqs = append(*c.reqs, cp)
	}
	c.mu.Unlock()
	o, ok := c.script[req.URL.String()]
	if !ok {
		o = outcome{status: 200}
	}
	if o.status == 0 {
		return nil, errors.New(o.msg)
	}
	return &http.Response{StatusCode: o.status, Status: fmt.Sprintf("%d scripted", o.status), Body: ioutil.NopCloser(strings.NewReader(o.body)), Header: http.Header{}}, nil
}

type fixedClock struct{ t int64 }

func (f fixedClock) Now() time.Time { return time.Unix(f.t, 0) }

func coqHeaders(e *emitter, hs [][2]string) string {
	q := make([]string, len(hs))
	for i, h := range hs {
		q[i] = "(" + e.str(h[0]) + ", " + e.str(h[1]) + ")"
	}
	return "[" + strings.Join(q, "; ") + "]"
}
func coqOptBody(e *emitter, has bool, b []byte) string {
	if !has {
		return "None"
	}
	return "(Some " + e.str(string(b)) + ")"
}

func runC19() {
	r := &rng{s: *seed}
	em := newEmitter()
	s := &Summary{Rule: "Dereference / Deliver for every status 100..599 and transport errors; batches of 0..64 recipients (duplicates) with per-recipient outcomes in every combination for small batches and at random for large ones; recording signer and client; real RSA-SHA256 and HMAC-SHA256 signers over several header lists verified on the captured requests; concurrent batches on one transport value", Dist: map[string]interface{}{}}
	var cases []string
	var violations []Violation
	addV := func(kind string, m map[string]interface{}) {
		violations = append(violations, Violation{What: kind, Sig: "C19:" + kind, Replay: m})
	}
	nBatch, nSingle, nVerify, nConc := 0, 0, 0, 0
	urlFor := func(i int) string {
		switch i % 5 {
		case 1: // explicit port
			return fmt.Sprintf("https://peer%d.example:8443/users/u%d/inbox", i%7, i)
		case 3: // IPv6 literal with port
			return fmt.Sprintf("http://[2001:db8::%d]:3000/users/u%d/inbox", i%7+1, i)
		}
		return fmt.Sprintf("https://peer%d.example/users/u%d/inbox", i%7, i)
	}
	mk := func(script map[string]outcome, failSign map[string]bool, agent string, t int64) (*pub.HttpSigTransport, *[]sigCapture, *[]doCapture) {
		var sigs []sigCapture
		var dos []doCapture
		mu := &sync.Mutex{}
		tp := pub.NewHttpSigTransport(recClient{mu: mu, calls: &dos, script: script}, agent, fixedClock{t},
			recSigner{mu: mu, post: false, calls: &sigs, fail: failSign}, recSigner{mu: mu, post: true, calls: &sigs, fail: failSign}, "https://example.com/users/alice#main-key", "PRIVATE-KEY-OF-ALICE")
		return tp, &sigs, &dos
	}
	emitCase := func(kind string, agent string, t int64, payload string, rcpts []string, script map[string]outcome, failSign map[string]bool, sigs []sigCapture, dos []doCapture, okResult bool, body string, errText string) {
		var sc []string
		for _, u := range uniqueStrings(rcpts) {
			o, has := script[u]
			if !has {
				o = outcome{status: 200}
			}
			sf := "false"
			if failSign[u] {
				sf = "true"
			}
			sc = append(sc, fmt.Sprintf("(%s, (%s, %d, %s, %s))", em.str(u), sf, o.status, em.str(o.msg), em.str(o.body)))
		}
		var sg []string
		for _, c := range sigs {
			sg = append(sg, fmt.Sprintf("(%s, %s, %s, {| q_method := %s; q_url := %s; q_headers := %s; q_body := None |}, %s)",
				coqBool(c.post), em.str(c.key), em.str(c.keyID), coqStr(c.method), em.str(c.url), coqHeaders(em, c.headers), coqOptBody(em, c.hasBody, c.body)))
		}
		var ds []string
		for _, c := range dos {
			ds = append(ds, fmt.Sprintf("{| q_method := %s; q_url := %s; q_headers := %s; q_body := %s |}", coqStr(c.method), em.str(c.url), coqHeaders(em, c.headers), coqOptBody(em, c.hasBody, c.body)))
		}
		cases = append(cases, fmt.Sprintf("{| o_kind := %s; o_agent := %s; o_time := (%d)%%Z; o_payload := %s; o_rcpts := %s; o_script := [%s];\n   o_signs := [%s];\n   o_dos := [%s];\n   o_ok := %s; o_body := %s; o_err := %s |}",
			coqStr(kind), em.str(agent), t, em.str(payload), em.strList(rcpts), strings.Join(sc, "; "), strings.Join(sg, ";\n     "), strings.Join(ds, ";\n     "), coqBool(okResult), em.str(body), em.str(errText)))
		s.Evaluations++
	}
	agents := []string{"myapp/1.0", "Mastodon-like (bot; +https://example.com)", "a", "shop%20front/3 (100% federated; %s %d %v)", ""}
	// single requests: every status, transport errors, signer failures
	for code := 100; code <= 599; code++ {
		if *tier == "quick" && code%7 != 0 && code != 200 && code != 201 && code != 202 && code != 203 && code != 199 && code != 204 && code != 404 {
			continue
		}
		for _, kind := range []string{"deref", "deliver"} {
			u := urlFor(code)
			script := map[string]outcome{u: {status: code, body: fmt.Sprintf("{\"code\":%d}", code)}}
			agent := pick(r, agents)
			t := int64(1500000000 + r.intn(400000000))
			tp, sigs, dos := mk(script, nil, agent, t)
			payload := fmt.Sprintf("{\"n\":%d,\"pad\":\"%s\"}", code, strings.Repeat("x", r.intn(40)))
			if kind == "deref" {
				b, err := tp.Dereference(context.Background(), mustURL(u))
				emitCase(kind, agent, t, "", []string{u}, script, nil, *sigs, *dos, err == nil, string(b), errString(err))
			} else {
				err := tp.Deliver(context.Background(), []byte(payload), mustURL(u))
				emitCase(kind, agent, t, payload, []string{u}, script, nil, *sigs, *dos, err == nil, "", errString(err))
			}
			nSingle++
		}
	}
	for i := 0; i < 6; i++ {
		u := urlFor(1000 + i)
		kind := []string{"deref", "deliver"}[i%2]
		script := map[string]outcome{}
		fs := map[string]bool{}
		if i < 4 {
			script[u] = outcome{status: 0, msg: fmt.Sprintf("dial tcp: connection refused (%d)", i)}
		} else {
			fs[u] = true
		}
		tp, sigs, dos := mk(script, fs, agents[0], 1600000000)
		if kind == "deref" {
			b, err := tp.Dereference(context.Background(), mustURL(u))
			emitCase(kind, agents[0], 1600000000, "", []string{u}, script, fs, *sigs, *dos, err == nil, string(b), errString(err))
		} else {
			err := tp.Deliver(context.Background(), []byte("{}"), mustURL(u))
			emitCase(kind, agents[0], 1600000000, "{}", []string{u}, script, fs, *sigs, *dos, err == nil, "", errString(err))
		}
		nSingle++
	}
	// batches: every combination of {200, 202, 404, 500, transport error, signer error} for up to 3 recipients, random beyond
	outs := []outcome{{status: 200}, {status: 202}, {status: 404}, {status: 500}, {status: 0, msg: "connection reset"}}
	runBatch := func(rcpts []string, script map[string]outcome, fs map[string]bool) {
		agent := pick(r, agents)
		t := int64(1500000000 + r.intn(400000000))
		tp, sigs, dos := mk(script, fs, agent, t)
		payload := fmt.Sprintf("{\"batch\":%d}", nBatch)
		var us []*url.URL
		for _, u := range rcpts {
			us = append(us, mustURL(u))
		}
		err := tp.BatchDeliver(context.Background(), []byte(payload), us)
		emitCase("batch", agent, t, payload, rcpts, script, fs, *sigs, *dos, err == nil, "", errString(err))
		nBatch++
	}
	runBatch(nil, map[string]outcome{}, nil)
	for n := 1; n <= 3; n++ {
		total := 1
		for i := 0; i < n; i++ {
			total *= len(outs) + 1
		}
		for code := 0; code < total; code++ {
			if *tier == "quick" && n == 3 && code%5 != 0 {
				continue
			}
			script := map[string]outcome{}
			fs := map[string]bool{}
			var rcpts []string
			c := code
			for i := 0; i < n; i++ {
				u := urlFor(2000 + i)
				k := c % (len(outs) + 1)
				c /= len(outs) + 1
				if k == len(outs) {
					fs[u] = true
				} else {
					script[u] = outs[k]
				}
				rcpts = append(rcpts, u)
			}
			runBatch(rcpts, script, fs)
		}
	}
	nb := 30
	if *tier != "quick" {
		nb = 600
	}
	for i := 0; i < nb; i++ {
		n := r.intn(65)
		script := map[string]outcome{}
		fs := map[string]bool{}
		var rcpts []string
		for j := 0; j < n; j++ {
			u := urlFor(3000 + r.intn(n+1)) // duplicates
			rcpts = append(rcpts, u)
			switch r.intn(8) {
			case 0:
				script[u] = outcome{status: 100 + r.intn(500)}
			case 1:
				script[u] = outcome{status: 0, msg: fmt.Sprintf("timeout %d", j)}
			case 2:
				fs[u] = true
			}
		}
		for u := range fs {
			delete(script, u)
		}
		runBatch(rcpts, script, fs)
	}
	// real signers: the signature verifies on what the client received
	rsaKey, _ := rsa.GenerateKey(rand.Reader, 2048)
	hmacKey := []byte("a shared secret of sufficient length")
	type sgn struct {
		algo    httpsig.Algorithm
		key     crypto.PrivateKey
		pub     crypto.PublicKey
		headers [][]string
	}
	for _, sg := range []sgn{
		{httpsig.RSA_SHA256, rsaKey, &rsaKey.PublicKey, [][]string{{"(request-target)", "date", "host"}, {"(request-target)", "date", "host", "digest"}, {"date"}, {"(request-target)", "host", "date", "user-agent"}}},
		{httpsig.HMAC_SHA256, hmacKey, hmacKey, [][]string{{"(request-target)", "date"}, {"date", "host", "digest"}}},
	} {
		for _, hl := range sg.headers {
			for rep := 0; rep < 3; rep++ {
				hasDigest := false
				for _, h := range hl {
					if h == "digest" {
						hasDigest = true
					}
				}
				getHL := hl
				if hasDigest { // GET has no body / Digest
					getHL = nil
					for _, h := range hl {
						if h != "digest" {
							getHL = append(getHL, h)
						}
					}
				}
				gs, _, e1 := httpsig.NewSigner([]httpsig.Algorithm{sg.algo}, httpsig.DigestSha256, getHL, httpsig.Signature)
				ps, _, e2 := httpsig.NewSigner([]httpsig.Algorithm{sg.algo}, httpsig.DigestSha256, hl, httpsig.Signature)
				if e1 != nil || e2 != nil {
					addV("harness", map[string]interface{}{"what": fmt.Sprint(e1, e2)})
					continue
				}
				var dos []doCapture
				var reqs []*http.Request
				mu := &sync.Mutex{}
				tp := pub.NewHttpSigTransport(recClient{mu: mu, calls: &dos, script: map[string]outcome{}, reqs: &reqs}, "verifier/1", fixedClock{1600000000 + int64(rep)}, gs, ps, "key-1", sg.key)
				payload := []byte(fmt.Sprintf("{\"rep\":%d,\"headers\":%d}", rep, len(hl)))
				_, err1 := tp.Dereference(context.Background(), mustURL(urlFor(4000+rep)))
				err2 := tp.Deliver(context.Background(), payload, mustURL(urlFor(4100+rep)))
				err3 := tp.BatchDeliver(context.Background(), payload, []*url.URL{mustURL(urlFor(4200)), mustURL(urlFor(4201)), mustURL(urlFor(4200))})
				if err1 != nil || err2 != nil || err3 != nil {
					addV("signed-request-failed", map[string]interface{}{"algo": string(sg.algo), "headers": hl, "errors": fmt.Sprint(err1, err2, err3)})
				}
				for _, q := range reqs {
					nVerify++
					// the server side sees the Host of the URL
					q.Host = q.URL.Host
					v, err := httpsig.NewVerifier(q)
					if err != nil {
						addV("no-signature", map[string]interface{}{"algo": string(sg.algo), "headers": hl, "url": q.URL.String(), "error": err.Error()})
						continue
					}
					if v.KeyId() != "key-1" {
						addV("wrong-key-id", map[string]interface{}{"got": v.KeyId()})
					}
					if err := v.Verify(sg.pub, sg.algo); err != nil {
						addV("signature-does-not-verify", map[string]interface{}{"algo": string(sg.algo), "headers": hl, "method": q.Method, "url": q.URL.String(), "error": err.Error()})
					}
				}
			}
		}
	}
	// concurrent batches on one transport value (meaningful under the race detector)
	{
		var sigs []sigCapture
		var dos []doCapture
		mu := &sync.Mutex{}
		script := map[string]outcome{urlFor(5001): {status: 500}, urlFor(5002): {status: 0, msg: "reset"}}
		tp := pub.NewHttpSigTransport(recClient{mu: mu, calls: &dos, script: script}, "conc/1", fixedClock{1600000000},
			recSigner{mu: mu, post: false, calls: &sigs}, recSigner{mu: mu, post: true, calls: &sigs}, "k", "PRIV")
		var wg sync.WaitGroup
		want := 0
		errs := make([]error, 8)
		for b := 0; b < 8; b++ {
			var us []*url.URL
			for j := 0; j < 10+b; j++ {
				us = append(us, mustURL(urlFor(5000+j%5)))
			}
			want += len(us)
			wg.Add(1)
			go func(b int, us []*url.URL) {
				defer wg.Done()
				errs[b] = tp.BatchDeliver(context.Background(), []byte(fmt.Sprintf("{\"b\":%d}", b)), us)
				if b%2 == 0 {
					tp.Dereference(context.Background(), mustURL(urlFor(5003)))
				}
			}(b, us)
		}
		wg.Wait()
		nConc = 8
		posts := 0
		for _, d := range dos {
			if d.method == "POST" {
				posts++
			}
		}
		if posts != want {
			addV("concurrent-batches", map[string]interface{}{"what": fmt.Sprintf("%d POSTs for %d recipients", posts, want)})
		}
		for b, e := range errs {
			if e == nil {
				addV("concurrent-batches", map[string]interface{}{"what": fmt.Sprintf("batch %d with failing recipients returned nil", b)})
			}
		}
	}
	// one recipient named several times, the attempts with different outcomes (the first to arrive is refused, the later ones
	// are accepted - after a while, so that they finish last): every attempt made, and an error naming the recipient
	for _, shape := range [][]int{{0, 0}, {0, 1, 0}, {0, 0, 0}, {1, 0, 2, 0}} {
		for rep := 0; rep < 6; rep++ {
			var sigs []sigCapture
			mu := &sync.Mutex{}
			x := urlFor(7000)
			fc := &flakyClient{mu: mu, failFirst: map[string]int{x: 1}}
			tp := pub.NewHttpSigTransport(fc, "dup/1", fixedClock{1600000000}, recSigner{mu: mu, post: false, calls: &sigs}, recSigner{mu: mu, post: true, calls: &sigs}, "k", "PRIV")
			var us []*url.URL
			for _, i := range shape {
				us = append(us, mustURL(urlFor(7000+5*i)))
			}
			err := tp.BatchDeliver(context.Background(), []byte("{}"), us)
			if fc.posts != len(us) {
				addV("duplicate-recipient", map[string]interface{}{"what": fmt.Sprintf("%d POSTs for %d recipients", fc.posts, len(us)), "recipients": fmt.Sprint(us)})
				break
			}
			if err == nil || !strings.Contains(err.Error(), x) {
				addV("duplicate-recipient", map[string]interface{}{"what": "one attempt for a recipient named twice failed (503), the other succeeded: BatchDeliver must return an error naming it", "recipients": fmt.Sprint(us), "returned": fmt.Sprint(err)})
				break
			}
		}
	}
	var b strings.Builder
	b.WriteString("From Coq Require Import String List ZArith.\nFrom Verif Require Import Transport.Model Transport.Check.\nImport ListNotations.\nOpen Scope string_scope.\n")
	b.WriteString(em.defs.String())
	b.WriteString("Definition observed : list observation := [\n" + strings.Join(cases, ";\n") + "\n].\n")
	writeFile("observed.v", []byte(b.String()))
	s.Distinct = len(cases)
	s.Dist["single_requests"] = nSingle
	s.Dist["batches"] = nBatch
	s.Dist["captured_requests_verified_with_httpsig"] = nVerify
	s.Dist["concurrent_batches"] = nConc
	s.Violations = violations
	writeSummary(s)
	fmt.Printf("c19: %d single, %d batches, %d verified, %d violations\n", nSingle, nBatch, nVerify, len(violations))
}

func errString(e error) string {
	if e == nil {
		return ""
	}
	return e.Error()
}

func uniqueStrings(l []string) []string {
	seen := map[string]bool{}
	var out []string
	for _, x := range l {
		if !seen[x] {
			seen[x] = true
			out = append(out, x)
		}
	}
	return out
}
