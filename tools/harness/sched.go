package main

// Deterministic cooperative scheduler for C08 (filled in by c08.go); with a nil
// scheduler every hook is a no-op.
type scheduler struct {
	impl schedImpl
}

type schedImpl interface {
	yield(tid int, what string)
	acquire(tid int, id string) bool // false: the lock was refused (not taken)
	release(tid int, id string)
}

func (s *scheduler) yield(tid int, what string) { s.impl.yield(tid, what) }
func (s *scheduler) acquire(tid int, id string) bool { return s.impl.acquire(tid, id) }
func (s *scheduler) release(tid int, id string) { s.impl.release(tid, id) }
