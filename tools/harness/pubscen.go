package main

// Scenario families for the pub properties.  Every random choice derives from
// the one splitmix64 state.

import (
	"fmt"
	"strings"
)

const (
	asCtx   = "https://www.w3.org/ns/activitystreams"
	local   = "https://example.com"
	remote  = "https://remote.example"
	remote2 = "https://other.example:8443"
	public  = "https://www.w3.org/ns/activitystreams#Public"
)

func actorID(h, n string) string { return h + "/users/" + n }
func inboxOf(a string) string    { return a + "/inbox" }
func outboxOf(a string) string   { return a + "/outbox" }
func person(id string) jmap {
	return jmap{"@context": asCtx, "type": "Person", "id": id, "inbox": inboxOf(id), "outbox": outboxOf(id)}
}

// baseWorld: two local actors, a few owned objects and collections, a handful of remote actors and collections.
func baseWorld(r *rng) *world {
	w := &world{Store: map[string]jmap{}, Owned: map[string]bool{}, ActorForOutbox: map[string]string{}, ActorForInbox: map[string]string{},
		OutboxForInbox: map[string]string{}, InboxForActor: map[string]string{}, Inboxes: map[string]jmap{}, Outboxes: map[string]jmap{},
		Followers: map[string]jmap{}, Following: map[string]jmap{}, Liked: map[string]jmap{}, Remote: map[string]remoteDoc{},
		NewIDBase: local + "/new", Clock: 1582977600 + int64(r.intn(100000))}
	for _, n := range []string{"alice", "bob"} {
		a := actorID(local, n)
		w.Store[a] = person(a)
		w.Owned[a] = true
		w.Owned[inboxOf(a)] = true
		w.Owned[outboxOf(a)] = true
		w.ActorForOutbox[outboxOf(a)] = a
		w.ActorForInbox[inboxOf(a)] = a
		w.OutboxForInbox[inboxOf(a)] = outboxOf(a)
		w.Inboxes[inboxOf(a)] = jmap{"@context": asCtx, "type": "OrderedCollectionPage", "id": inboxOf(a)}
		w.Outboxes[outboxOf(a)] = jmap{"@context": asCtx, "type": "OrderedCollectionPage", "id": outboxOf(a)}
		w.Followers[a] = jmap{"@context": asCtx, "type": "Collection", "id": a + "/followers"}
		w.Following[a] = jmap{"@context": asCtx, "type": "Collection", "id": a + "/following"}
		w.Liked[a] = jmap{"@context": asCtx, "type": "Collection", "id": a + "/liked"}
	}
	for _, n := range []string{"carol", "dave", "erin"} {
		a := actorID(remote, n)
		w.Remote[a] = remoteDoc{Kind: "doc", Doc: person(a)}
	}
	frank := actorID(remote2, "frank")
	w.Remote[frank] = remoteDoc{Kind: "doc", Doc: person(frank)}
	// owned objects
	for i := 1; i <= 3; i++ {
		id := fmt.Sprintf("%s/notes/%d", local, i)
		n := jmap{"@context": asCtx, "type": "Note", "id": id, "content": fmt.Sprintf("note %d", i), "attributedTo": actorID(local, "alice")}
		switch r.intn(6) {
		case 4: // ordered likes / unordered shares that exist but hold nothing yet
			n["likes"] = jmap{"type": "OrderedCollection", "id": id + "/likes", "totalItems": float64(0)}
			n["shares"] = jmap{"type": "Collection", "id": id + "/shares", "totalItems": float64(0)}
		case 5:
			n["likes"] = jmap{"type": "OrderedCollection", "id": id + "/likes"}
			n["shares"] = jmap{"type": "OrderedCollection", "id": id + "/shares", "orderedItems": remote + "/shares/0"}
		case 1:
			n["likes"] = jmap{"type": "Collection", "id": id + "/likes", "items": remote + "/likes/0"}
			n["shares"] = jmap{"type": "OrderedCollection", "id": id + "/shares"}
		case 2:
			n["likes"] = jmap{"type": "OrderedCollection", "id": id + "/likes", "orderedItems": []interface{}{remote + "/likes/0", remote + "/likes/00"}}
			n["shares"] = id + "/shares"
		case 3:
			n["published"] = "2020-01-02T03:04:05Z"
			n["updated"] = "2020-02-03T04:05:06Z"
		}
		w.Store[id] = n
		w.Owned[id] = true
	}
	// owned collections
	for i, ty := range []string{"Collection", "OrderedCollection"} {
		id := fmt.Sprintf("%s/cols/%d", local, i+1)
		c := jmap{"@context": asCtx, "type": ty, "id": id}
		items := []interface{}{actorID(remote, "carol"), actorID(remote, "dave")}
		if ty == "Collection" {
			c["items"] = items
		} else {
			c["orderedItems"] = items
		}
		w.Store[id] = c
		w.Owned[id] = true
	}
	// a remote collection (not owned) cached locally
	w.Store[remote+"/cols/9"] = jmap{"@context": asCtx, "type": "Collection", "id": remote + "/cols/9", "items": []interface{}{actorID(remote, "erin")}}
	// a remote note (not owned) cached locally
	rn := remote + "/notes/9"
	w.Store[rn] = jmap{"@context": asCtx, "type": "Note", "id": rn, "content": "remote"}
	w.Remote[rn] = remoteDoc{Kind: "doc", Doc: jmap{"@context": asCtx, "type": "Note", "id": rn, "content": "remote", "inReplyTo": local + "/notes/1"}}
	return w
}

func pick(r *rng, l []string) string { return l[r.intn(len(l))] }

// iriOrEmbedded gives an actor reference as an IRI or as an embedded Person.
func iriOrEmbedded(r *rng, id string) interface{} {
	if r.chance(1, 3) {
		return jmap{"type": "Person", "id": id}
	}
	return id
}

func one(l []interface{}) interface{} {
	if len(l) == 1 {
		return l[0]
	}
	return l
}

func defaultCfg() config {
	return config{Social: true, Federating: true, OnFollow: 1, MaxDelivery: 3, MaxForwarding: 3, Auth: "ok", Filter: "all"}
}

func inboxScenario(family string, w *world, cfg config, act jmap) *scenario {
	return &scenario{Family: family, Cfg: cfg, World: w, Entry: "postinbox", Method: "POST", ContentType: apContentType, Body: act,
		Path: "/users/alice/inbox", Tags: map[string]bool{}}
}
func outboxScenario(family string, w *world, cfg config, body jmap) *scenario {
	return &scenario{Family: family, Cfg: cfg, World: w, Entry: "postoutbox", Method: "POST", ContentType: apContentType, Body: body,
		Path: "/users/alice/outbox", Tags: map[string]bool{}}
}

var remoteActors = []string{actorID(remote, "carol"), actorID(remote, "dave"), actorID(remote, "erin"), actorID(remote2, "frank")}

// randomWrapCfg chooses, for activity type ty, no callback / a wrapped callback / an overriding one.
func randomWrapCfg(r *rng, cfg *config, ty string, fed bool) {
	switch r.intn(4) {
	case 1:
		if fed {
			cfg.FedWrapped = append(cfg.FedWrapped, ty)
		} else {
			cfg.SocWrapped = append(cfg.SocWrapped, ty)
		}
	case 2:
		if fed {
			cfg.FedOther = append(cfg.FedOther, ty)
		} else {
			cfg.SocOther = append(cfg.SocOther, ty)
		}
	}
}

// ---- federated (inbox) activities of every handled type ------------------------------------------------

func genInbox(r *rng, ty string, k int) *scenario { return genInboxF(r, ty, k, false) }

// genInboxF with focus: the default side effect is what is exercised - the activity is new, its sender is not blocked, it
// has its object, the default callback is in place (plain or wrapped) for two of three scenarios, and the first target /
// object runs through every candidate in turn (owned, not owned, not owned but cached locally, not a collection).
func genInboxF(r *rng, ty string, k int, focus bool) *scenario {
	w := baseWorld(r)
	cfg := defaultCfg()
	cfg.OnFollow = r.intn(3)
	if focus {
		cfg.OnFollow = k % 3
	}
	randomWrapCfg(r, &cfg, ty, true)
	if focus && k%3 != 0 {
		cfg.FedOther = nil
	}
	if focus { // callbacks the application supplied for other types leave this type's default alone
		others := []string{"Reject", "Remove", "Accept", "Add", "Undo", "Like", "Follow", "Create", "Delete", "Update", "Block", "Announce"}
		o1, o2 := others[k%len(others)], others[(k/2+5)%len(others)]
		if o1 != ty {
			cfg.FedOther = append(cfg.FedOther, o1)
		}
		if o2 != ty && o2 != o1 {
			cfg.FedWrapped = append(cfg.FedWrapped, o2)
		}
	}
	alice := actorID(local, "alice")
	sender := pick(r, remoteActors[:3])
	id := fmt.Sprintf("%s/activities/%s-%d", remote, ty, k)
	act := jmap{"@context": asCtx, "type": ty, "id": id, "actor": iriOrEmbedded(r, sender)}
	if r.chance(1, 4) && !(focus && (ty == "Accept" || ty == "Reject")) { // (the Accept cases set their accepting actors themselves)
		act["actor"] = []interface{}{sender, iriOrEmbedded(r, pick(r, remoteActors[:3]))}
	}
	if focus && k%7 == 3 && ty != "Accept" && ty != "Reject" { // two actors that differ only in the query of their ids; the second one is blocked
		// (not for Accept / Reject: who accepts is what their own cases vary)
		act["actor"] = []interface{}{sender + "?author=1", jmap{"type": "Person", "id": sender + "?author=2"}}
		if k%14 == 3 && ty != "Undo" && ty != "Accept" && ty != "Reject" && ty != "Follow" {
			cfg.Blocked = []string{sender + "?author=2"}
		}
	}
	note := func(i int) jmap {
		return jmap{"type": "Note", "id": fmt.Sprintf("%s/notes/%d-%d", remote, k, i), "content": "hello", "attributedTo": sender}
	}
	nobj := 1 + r.intn(3)
	switch ty {
	case "Create":
		var objs []interface{}
		if focus && k%4 == 1 && nobj < 2 {
			nobj = 2
		}
		for i := 0; i < nobj; i++ {
			if r.chance(1, 3) || (focus && k%4 == 1) {
				iri := fmt.Sprintf("%s/notes/byiri-%d-%d", remote, k, i)
				doc := jmap{"@context": asCtx, "type": "Note", "id": iri, "content": "fetched"}
				if i == 0 { // the first fetched object has members the later ones lack
					doc["summary"] = "only the first has a summary"
					doc["attributedTo"] = sender
				}
				w.Remote[iri] = remoteDoc{Kind: "doc", Doc: doc}
				objs = append(objs, iri)
			} else {
				objs = append(objs, note(i))
			}
		}
		act["object"] = one(objs)
	case "Update", "Delete":
		var objs []interface{}
		foreignAt := -1
		if focus { // the object of another origin first / last / after two of the activity's own
			switch k % 4 {
			case 0:
				nobj = 3 // all of the activity's own origin: the effect reaches every one of them
			case 1:
				nobj, foreignAt = 2, 1
			case 2:
				nobj, foreignAt = 2, 0
			case 3:
				nobj, foreignAt = 3, 2
			}
		}
		for i := 0; i < nobj; i++ {
			h := remote
			if r.chance(1, 3) && !focus {
				h = pick(r, []string{"https://remote.example:444", "https://remote.example:443", "https://REMOTE.example", "https://sub.remote.example", "https://u:p@remote.example", local})
			}
			if i == foreignAt {
				h = pick(r, []string{"https://remote.example:444", "https://REMOTE.example", "https://sub.remote.example", "https://other.example", local})
			}
			o := jmap{"type": "Note", "id": fmt.Sprintf("%s/notes/%d-%d", h, k, i), "content": "updated"}
			if focus && k%8 >= 4 && (i == foreignAt || (foreignAt < 0 && i == 1)) {
				// a Link-typed object: its id decides the origin, whatever its href says (the foreign one carries an href on
				// the activity's own host; one of the activity's own origin carries a foreign href)
				other := remote
				if h == remote {
					other = "https://other.example"
				}
				o = jmap{"type": "Mention", "id": fmt.Sprintf("%s/mentions/%d-%d", h, k, i), "href": fmt.Sprintf("%s/notes/%d-%d", other, k, i), "name": "@x"}
			}
			if ty == "Delete" && r.chance(1, 2) {
				objs = append(objs, o["id"])
			} else {
				objs = append(objs, o)
			}
		}
		act["object"] = one(objs)
		if r.chance(1, 5) { // the activity id itself carries a port the objects lack
			act["id"] = strings.Replace(id, remote, "https://remote.example:8443", 1)
		}
	case "Follow":
		target := alice
		if r.chance(1, 4) {
			target = actorID(local, "bob")
		}
		if focus && k%4 == 2 { // several following actors, the first of which follows already: every one of them ends up a follower
			target = alice
			cfg.OnFollow = 1
			act["actor"] = []interface{}{sender, actorID(remote, "zed"), iriOrEmbedded(r, actorID(remote2, "frank"))}
			w.Followers[alice] = jmap{"@context": asCtx, "type": "Collection", "id": alice + "/followers", "items": []interface{}{actorID(remote, "erin"), sender}}
		}
		if r.chance(1, 4) {
			act["object"] = []interface{}{actorID(remote, "erin"), iriOrEmbedded(r, target)}
		} else {
			act["object"] = iriOrEmbedded(r, target)
		}
	case "Accept", "Reject":
		fid := fmt.Sprintf("%s/follows/%d", local, k)
		follow := jmap{"@context": asCtx, "type": "Follow", "id": fid, "actor": alice, "object": sender}
		sel := r.intn(9)
		if focus {
			sel = k % 9
		}
		switch sel {
		case 0: // stored, correct
			w.Store[fid] = follow
		case 1: // absent
		case 2: // another type stored under that id
			w.Store[fid] = jmap{"@context": asCtx, "type": "Like", "id": fid, "actor": alice, "object": sender}
		case 3: // stored follow has another actor
			f2 := deepCopy(follow)
			f2["actor"] = actorID(local, "bob")
			w.Store[fid] = f2
		case 4: // accepting actor is not among the stored follow's objects
			f2 := deepCopy(follow)
			f2["object"] = actorID(remote, "erin")
			w.Store[fid] = f2
		case 5:
			w.Store[fid] = follow
			act["actor"] = []interface{}{sender, actorID(remote, "erin")}
			f3 := deepCopy(follow)
			f3["object"] = []interface{}{sender, actorID(remote, "erin")}
			w.Store[fid] = f3
		case 6, 8: // one accepting actor was followed, the other never was
			w.Store[fid] = follow
			if sel == 6 {
				act["actor"] = []interface{}{sender, actorID(remote, "zed")}
			} else {
				act["actor"] = []interface{}{actorID(remote, "zed"), sender}
			}
		case 7: // the stored follow names one actor twice; a second, never followed actor accepts too
			f4 := deepCopy(follow)
			f4["object"] = []interface{}{sender, sender}
			w.Store[fid] = f4
			act["actor"] = []interface{}{sender, actorID(remote, "zed")}
		}
		w.Owned[fid] = true
		if r.chance(1, 2) {
			emb := deepCopy(follow)
			delete(emb, "@context")
			act["object"] = emb
		} else {
			w.Remote[fid] = remoteDoc{Kind: "doc", Doc: follow}
			act["object"] = fid
		}
		if r.chance(1, 8) && !focus {
			act["object"] = note(0) // not a Follow at all
		}
	case "Add", "Remove":
		var objs, targets []interface{}
		for i := 0; i < nobj; i++ {
			objs = append(objs, actorID(remote, pick(r, []string{"carol", "dave", "zed"})))
		}
		for i := 0; i < 1+r.intn(3); i++ {
			targets = append(targets, pick(r, []string{local + "/cols/1", local + "/cols/2", remote + "/cols/7", remote + "/cols/9", local + "/notes/1"}))
		}
		if focus {
			targets[0] = []string{local + "/cols/1", remote + "/cols/9", local + "/cols/2", remote + "/cols/7", local + "/notes/1"}[k%5]
			if k%2 == 0 && len(targets) > 1 { // not-owned first, owned later and the other way round
				targets[0], targets[len(targets)-1] = targets[len(targets)-1], targets[0]
			}
		}
		if r.chance(1, 3) { // the same target named twice
			targets = append(targets, targets[0])
		}
		if focus && k%6 == 4 { // the target given as an embedded copy of an owned collection, with a member list of the peer's making
			targets[0] = jmap{"type": "Collection", "id": local + "/cols/1", "items": []interface{}{remote + "/planted/1", remote + "/planted/2"}}
		}
		act["object"] = one(objs)
		act["target"] = one(targets)
		if r.chance(1, 10) && !focus {
			delete(act, "target")
		}
	case "Like", "Announce":
		var objs []interface{}
		for i := 0; i < nobj; i++ {
			objs = append(objs, pick(r, []string{local + "/notes/1", local + "/notes/2", local + "/notes/3", remote + "/notes/9"}))
		}
		if focus {
			objs[0] = []string{local + "/notes/1", remote + "/notes/9", local + "/notes/2", local + "/notes/3"}[k%4]
		}
		act["object"] = one(objs)
	case "Undo":
		var objs []interface{}
		nundo := 1 + r.intn(2)
		if focus && k%3 == 1 {
			nundo = 2
		}
		for i := 0; i < nundo; i++ {
			lid := fmt.Sprintf("%s/likes/%d-%d", remote, k, i)
			actors := []interface{}{sender}
			switch r.intn(4) {
			case 1:
				actors = []interface{}{actorID(remote, "zed")}
			case 2:
				actors = append(actors, actorID(remote, "erin"))
			}
			if focus && k%3 == 1 { // two undone activities: the first by someone else, the last the sender's own
				if i == 0 {
					actors = []interface{}{actorID(remote, "zed")}
				} else {
					actors = []interface{}{sender}
				}
			}
			if focus && k%2 == 1 || r.chance(1, 3) { // the undone activity names its actors as embedded values
				for ai := range actors {
					actors[ai] = jmap{"type": "Person", "id": actors[ai]}
				}
			}
			w.Remote[lid] = remoteDoc{Kind: "doc", Doc: jmap{"@context": asCtx, "type": "Like", "id": lid, "actor": one(actors), "object": local + "/notes/1"}}
			if r.chance(1, 2) {
				objs = append(objs, lid)
			} else {
				objs = append(objs, jmap{"type": "Like", "id": lid, "actor": sender, "object": local + "/notes/1"})
			}
		}
		act["object"] = one(objs)
	case "Block":
		act["object"] = alice
	default: // a type without default behaviour (Travel, Listen, ...)
		act["object"] = note(0)
	}
	if r.chance(1, 12) && ty != "Announce" && !focus {
		delete(act, "object")
	}
	// addressing, possibly naming owned collections (inbox forwarding)
	if r.chance(1, 2) {
		act["to"] = one([]interface{}{alice, pick(r, []string{local + "/cols/1", local + "/cols/2", public, local + "/notes/2"})})
		if r.chance(1, 2) {
			act["cc"] = pick(r, []string{local + "/cols/2", remote + "/cols/7"})
		}
		if r.chance(1, 2) {
			act["inReplyTo"] = pick(r, []string{local + "/notes/1", remote + "/notes/9", remote + "/missing"})
		}
		cfg.Filter = pick(r, []string{"all", "all", "first", "none"})
		cfg.MaxForwarding = 1 + r.intn(4)
	}
	if focus && k%5 == 2 { // two owned collections addressed: forwarding loads and keeps both
		act["to"] = []interface{}{local + "/cols/2", alice}
		act["cc"] = local + "/cols/1"
		act["inReplyTo"] = local + "/notes/1"
		cfg.Filter = "all"
		cfg.MaxForwarding = 2
	}
	if r.chance(1, 10) && !focus { // duplicate delivery: already in the inbox
		w.Inboxes[inboxOf(alice)]["orderedItems"] = id
	}
	if r.chance(1, 8) && !focus {
		cfg.Blocked = []string{sender}
	}
	sc := inboxScenario("inbox:"+ty, w, cfg, act)
	sc.Tags[ty] = true
	return sc
}

// ---- structural variants -------------------------------------------------------------------------------
// One member of an otherwise valid request made absent / null / empty / doubled / a plain string / an embedded value
// without id: the glue around the modelled core (which property is required, what an empty list means, who is asked first).
var shapeProps = []string{"actor", "object", "target", "to", "cc", "bto", "bcc", "audience", "id", "type", "inReplyTo", "attributedTo", "origin"}
var relRefs = []string{"not an iri", "//remote.example/activities/relative", "/activities/1", "?x=1", "#frag", "remote.example/a"}
var shapeEdits = []string{"absent", "empty", "double", "string", "noid", "nonstring", "ref0", "ref1", "ref2", "ref3", "ref4", "ref5"} // a JSON null for a known property is not modelled (pub model: nulls dropped on decoding)

func genShape(r *rng, reps int) []*scenario {
	var out []*scenario
	k := 5000
	for rep := 0; rep < reps; rep++ {
		for _, side := range []string{"inbox", "outbox"} {
			types := inboxTypes
			if side == "outbox" {
				types = outboxTypes
			}
			for _, ty := range types {
				if ty == "CreateBig" {
					continue
				}
				k++
				var base *scenario
				if side == "inbox" {
					base = genInboxF(r, ty, k, true)
				} else {
					base = genOutbox(r, ty, k)
				}
				src, useSend := base.Body, false
				if src == nil {
					src, useSend = base.Send, true
				}
				if src == nil {
					continue
				}
				for _, p := range shapeProps {
					v, has := src[p]
					for _, e := range shapeEdits {
						if !has && e != "empty" && e != "noid" {
							continue
						}
						if p == "type" && (useSend || e == "noid") {
							continue // Send needs a decodable value
						}
						if e == "nonstring" && p != "type" {
							continue
						}
						if strings.HasPrefix(e, "ref") && p != "id" {
							continue
						}
						if e == "string" && p == "id" {
							continue // covered by ref0 .. ref5
						}
						if !has && !(p == "object" || p == "target" || p == "actor") {
							continue
						}
						body := deepCopy(src)
						switch e {
						case "absent":
							delete(body, p)
						case "null":
							body[p] = nil
						case "empty":
							body[p] = []interface{}{}
						case "double":
							if p == "type" { // several names: decoded under the first that is a type of the vocabularies
								body[p] = []interface{}{"ext:Unknown", v, "ext:Archived"}
							} else if l, ok := v.([]interface{}); ok && len(l) > 0 {
								body[p] = append(append([]interface{}{}, l...), l[0])
							} else {
								body[p] = []interface{}{v, v}
							}
						case "string":
							body[p] = relRefs[len(out)%6]
						case "ref0", "ref1", "ref2", "ref3", "ref4", "ref5": // the id as every kind of relative reference / bare word
							body[p] = relRefs[int(e[3]-'0')]
						case "noid":
							body[p] = jmap{"type": "Note", "content": "no id"}
						case "nonstring": // a list of type names none of which is a string
							body[p] = []interface{}{float64(7), jmap{"name": v}, float64(0)}
						}
						sc := *base
						if useSend {
							sc.Send = body
						} else {
							sc.Body = body
						}
						sc.Family = "shape:" + side + ":" + ty
						sc.Note = p + " " + e
						sc.Tags = map[string]bool{}
						out = append(out, &sc)
					}
				}
			}
		}
	}
	return out
}

// ---- client (outbox) posts -------------------------------------------------------------------------------

func addressing(r *rng, m jmap, w *world) { addressingN(r, m, w, 3) }

func addressingN(r *rng, m jmap, w *world, maxEntries int) {
	pool := []string{actorID(remote, "carol"), actorID(remote, "dave"), actorID(remote2, "frank"), actorID(local, "bob"), public, "as:Public",
		remote + "/cols/7", remote + "/cols/8", actorID(remote, "ghost"), actorID(local, "alice")}
	for _, p := range []string{"to", "bto", "cc", "bcc", "audience"} {
		if !r.chance(1, 2) {
			continue
		}
		var l []interface{}
		for i := 0; i < 1+r.intn(maxEntries); i++ {
			l = append(l, iriOrEmbedded(r, pick(r, pool)))
		}
		m[p] = one(l)
	}
	// remote collections (nested, cyclic), unreachable and garbled documents
	w.Remote[remote+"/cols/7"] = remoteDoc{Kind: "doc", Doc: jmap{"@context": asCtx, "type": "Collection", "id": remote + "/cols/7",
		"items": []interface{}{actorID(remote, "erin"), remote + "/cols/8", actorID(remote, "carol")}}}
	w.Remote[remote+"/cols/8"] = remoteDoc{Kind: "doc", Doc: jmap{"@context": asCtx, "type": "OrderedCollection", "id": remote + "/cols/8",
		"orderedItems": []interface{}{actorID(remote, "dave"), remote + "/cols/7", remote + "/broken"}}}
	w.Remote[remote+"/broken"] = remoteDoc{Kind: "notjson", Raw: "<html>"}
	if r.chance(1, 3) {
		w.InboxForActor[actorID(remote, "carol")] = remote + "/shared/inbox"
	}
	if r.chance(1, 3) {
		w.InboxForActor[actorID(local, "bob")] = inboxOf(actorID(local, "bob"))
	}
}

func genOutbox(r *rng, ty string, k int) *scenario {
	w := baseWorld(r)
	cfg := defaultCfg()
	cfg.MaxDelivery = 1 + r.intn(4)
	switch r.intn(5) {
	case 0:
		cfg.Federating = false
	}
	randomWrapCfg(r, &cfg, ty, false)
	{ // callbacks the application supplied for other types leave this type's default alone
		others := []string{"Update", "Create", "Delete", "Add", "Remove", "Like", "Follow", "Undo", "Block"}
		o1, o2 := others[k%len(others)], others[(k/3+4)%len(others)]
		me := ty
		if ty == "Note" || ty == "CreateBig" {
			me = "Create"
		}
		if o1 != me && k%2 == 0 {
			cfg.SocOther = append(cfg.SocOther, o1)
		}
		if o2 != me && o2 != o1 && k%3 == 0 {
			cfg.SocWrapped = append(cfg.SocWrapped, o2)
		}
	}
	alice := actorID(local, "alice")
	note := func(i int) jmap {
		n := jmap{"type": "Note", "content": fmt.Sprintf("post %d-%d", k, i)}
		if r.chance(1, 2) {
			n["attributedTo"] = pick(r, []string{alice, actorID(local, "bob")})
		}
		if r.chance(1, 3) {
			n["published"] = "2020-05-06T07:08:09Z"
		}
		return n
	}
	var body jmap
	switch ty {
	case "Note": // bare object, wrapped in a Create
		body = note(0)
		body["@context"] = asCtx
		addressing(r, body, w)
	case "Create", "CreateBig":
		// "Create": at most one id can be missing in each direction, so Go's map iteration order cannot show;
		// "CreateBig": arbitrary overlapping sets (judged at set level only, not replayed)
		big := ty == "CreateBig"
		body = jmap{"@context": asCtx, "type": "Create", "actor": alice}
		if big && r.chance(1, 2) {
			body["actor"] = []interface{}{alice, actorID(local, "bob")}
		}
		var objs []interface{}
		for i := 0; i < 1+r.intn(3); i++ {
			o := note(i)
			if big {
				addressingN(r, o, w, 3)
				if r.chance(1, 2) {
					o["attributedTo"] = []interface{}{pick(r, remoteActors), actorID(local, "bob")}
				}
			} else {
				if r.chance(1, 2) {
					o["to"] = pick(r, remoteActors)
				}
				if r.chance(1, 3) {
					o["bcc"] = pick(r, remoteActors)
				}
			}
			objs = append(objs, o)
		}
		body["object"] = one(objs)
		if big {
			addressingN(r, body, w, 3)
		} else {
			addressingN(r, body, w, 1)
		}
	case "Update":
		body = jmap{"@context": asCtx, "type": "Update", "actor": alice}
		id := fmt.Sprintf("%s/notes/%d", local, 1+r.intn(3))
		o := jmap{"type": "Note", "id": id, "content": "edited", "summary": "new summary"}
		if r.chance(1, 2) {
			o["attributedTo"] = nil
		}
		if r.chance(1, 2) {
			o["content"] = nil
		}
		body["object"] = o
		if r.chance(1, 3) {
			body["summary"] = nil // a null at the activity level must not touch the stored object
		}
		addressing(r, body, w)
	case "Delete":
		body = jmap{"@context": asCtx, "type": "Delete", "actor": alice}
		var objs []interface{}
		for i := 0; i < 1+r.intn(2); i++ {
			objs = append(objs, fmt.Sprintf("%s/notes/%d", local, 1+r.intn(3)))
		}
		body["object"] = one(objs)
		addressing(r, body, w)
	case "Add", "Remove":
		body = jmap{"@context": asCtx, "type": ty, "actor": alice}
		var objs, targets []interface{}
		for i := 0; i < 1+r.intn(3); i++ {
			objs = append(objs, actorID(remote, pick(r, []string{"carol", "dave", "zed"})))
		}
		for i := 0; i < 1+r.intn(3); i++ {
			targets = append(targets, pick(r, []string{local + "/cols/1", local + "/cols/2", remote + "/notes/9", remote + "/cols/9", local + "/notes/1"}))
		}
		if r.chance(1, 3) { // the same target named twice
			targets = append(targets, targets[0])
		}
		body["object"] = one(objs)
		body["target"] = one(targets)
		if r.chance(1, 8) {
			delete(body, "target")
		}
		if r.chance(2, 3) { // duplicates inside the stored collections
			w.Store[local+"/cols/1"]["items"] = []interface{}{actorID(remote, "carol"), actorID(remote, "dave"), actorID(remote, "carol")}
			if r.chance(1, 2) {
				w.Store[local+"/cols/2"]["orderedItems"] = []interface{}{actorID(remote, "dave"), actorID(remote, "dave"), actorID(remote, "carol"), actorID(remote, "dave"), actorID(remote, "zed")}
			}
		}
	case "Like":
		body = jmap{"@context": asCtx, "type": "Like", "actor": alice}
		var objs []interface{}
		for i := 0; i < 1+r.intn(3); i++ {
			objs = append(objs, fmt.Sprintf("%s/notes/%d", remote, 10+r.intn(4)))
		}
		body["object"] = one(objs)
		addressing(r, body, w)
	case "Block":
		body = jmap{"@context": asCtx, "type": "Block", "actor": alice, "object": pick(r, remoteActors)}
		addressing(r, body, w)
	case "Follow":
		body = jmap{"@context": asCtx, "type": "Follow", "actor": alice, "object": pick(r, remoteActors), "to": pick(r, remoteActors)}
	case "Undo":
		lid := fmt.Sprintf("%s/likes/%d", local, k)
		la := []interface{}{alice}
		if r.chance(1, 3) {
			la = []interface{}{actorID(local, "bob")}
		}
		w.Remote[lid] = remoteDoc{Kind: "doc", Doc: jmap{"@context": asCtx, "type": "Like", "id": lid, "actor": one(la), "object": remote + "/notes/9"}}
		body = jmap{"@context": asCtx, "type": "Undo", "actor": alice, "object": lid, "to": pick(r, remoteActors)}
	default: // Travel etc: default callback
		body = jmap{"@context": asCtx, "type": ty, "actor": alice, "to": pick(r, remoteActors)}
	}
	// embedded objects carrying hidden recipients of their own, on activities that may have none themselves
	if ty != "Note" && ty != "Create" && ty != "CreateBig" && r.chance(1, 2) {
		embed := func(x interface{}) interface{} {
			switch o := x.(type) {
			case string:
				if r.chance(1, 2) && ty != "Undo" {
					return jmap{"type": "Note", "id": o, "bto": pick(r, remoteActors), "bcc": []interface{}{pick(r, remoteActors), actorID(remote, "erin")}}
				}
			case jmap:
				if r.chance(1, 2) {
					o["bto"] = pick(r, remoteActors)
				}
				if r.chance(1, 2) {
					o["bcc"] = pick(r, remoteActors)
				}
				return o
			}
			return x
		}
		switch o := body["object"].(type) {
		case []interface{}:
			for i := range o {
				o[i] = embed(o[i])
			}
		case nil:
		default:
			body["object"] = embed(o)
		}
		if r.chance(1, 2) {
			delete(body, "bto")
			delete(body, "bcc")
		}
	}
	if r.chance(1, 12) && ty != "Note" {
		delete(body, "object")
	}
	if r.chance(1, 10) { // the sending actor's stored document has no inbox: the delivery must fail, not go out unstripped
		a := deepCopy(w.Store[alice])
		delete(a, "inbox")
		w.Store[alice] = a
	}
	sc := outboxScenario("outbox:"+ty, w, cfg, body)
	sc.Tags[ty] = true
	sc.PreHeaders = k%4 == 2
	if ty == "CreateBig" {
		sc.NoReplay = true
	}
	if r.chance(1, 4) && ty != "Update" && ty != "CreateBig" { // programmatic Send instead of a client POST
		sc.Entry = "send"
		sc.Send = body
		sc.Body = nil
		sc.Family = "send:" + ty
		if !cfg.Federating {
			sc.Cfg.Federating = true
		}
		if k%3 == 1 { // a Federating-only actor: no Social callbacks, the value goes out as wrapped
			sc.Cfg.Social = false
		}
	}
	return sc
}

// ---- overrides: an application callback for one type leaves every other type's default alone --------------------------
// For every ordered pair (overridden type O, posted type T != O) on both sides: T valid, T lacking its object, T lacking
// its target (Add / Remove) - with O supplied as 'other' and, separately, as a wrapped callback.
func genOverrides(r *rng) []*scenario {
	var out []*scenario
	k := 0
	socT := []string{"Create", "Update", "Delete", "Follow", "Add", "Remove", "Like", "Undo", "Block"}
	fedT := []string{"Create", "Update", "Delete", "Follow", "Accept", "Reject", "Add", "Remove", "Like", "Announce", "Undo", "Block"}
	for _, side := range []string{"outbox", "inbox"} {
		types := socT
		if side == "inbox" {
			types = fedT
		}
		for _, o := range types {
			for _, ty := range types {
				if o == ty {
					continue
				}
				for variant := 0; variant < 4; variant++ {
					if variant == 2 && !(ty == "Add" || ty == "Remove") {
						continue
					}
					k++
					var sc *scenario
					if side == "outbox" {
						sc = genOutbox(r, ty, k)
						if sc.Entry == "send" {
							sc.Entry, sc.Body, sc.Send = "postoutbox", sc.Send, nil
						}
						sc.Cfg.Social, sc.Cfg.Federating = true, true
						sc.Cfg.SocOther, sc.Cfg.SocWrapped = []string{o}, nil
						if variant == 3 {
							sc.Cfg.SocOther, sc.Cfg.SocWrapped = nil, []string{o}
						}
					} else {
						sc = genInboxF(r, ty, k, true)
						sc.Cfg.Blocked = nil
						sc.Cfg.FedOther, sc.Cfg.FedWrapped = []string{o}, nil
						if variant == 3 {
							sc.Cfg.FedOther, sc.Cfg.FedWrapped = nil, []string{o}
						}
					}
					switch variant {
					case 1:
						delete(sc.Body, "object")
					case 2:
						delete(sc.Body, "target")
					}
					sc.Family = "overrides:" + side + ":" + ty
					sc.Note = fmt.Sprintf("application callback for %s (%s), posted %s%s", o, map[bool]string{true: "wrapped", false: "other"}[variant == 3],
						ty, []string{"", " without object", " without target", ""}[variant])
					sc.Tags = map[string]bool{}
					out = append(out, sc)
				}
			}
		}
	}
	return out
}

// ---- the same actor value serving two requests: what it learnt from the first must not decide the second ---------------
// (C07: every request is authenticated / authorized anew; C10: each gets its own outcome)
func genAgain(r *rng, k int) *scenario {
	w := baseWorld(r)
	cfg := defaultCfg()
	sender := pick(r, remoteActors[:3])
	mk := func(i int) jmap {
		return jmap{"@context": asCtx, "type": pick(r, []string{"Like", "Create", "Announce"}), "id": fmt.Sprintf("%s/activities/again-%d-%d", remote, k, i),
			"actor": sender, "object": jmap{"type": "Note", "id": fmt.Sprintf("%s/notes/again-%d-%d", remote, k, i), "content": "x"}}
	}
	first := inboxScenario("again:first", w, cfg, mk(0))
	second := inboxScenario("again:"+[]string{"blocked-now", "auth-denied-now", "auth-error-now", "same"}[k%4], w, cfg, mk(1))
	switch k % 4 {
	case 0:
		second.Cfg.Blocked = []string{sender}
	case 1:
		second.Cfg.Auth = "denied"
	case 2:
		second.Cfg.Auth = "error"
	}
	if k%8 >= 4 { // the other way round: refused first, welcome afterwards
		first.Cfg, second.Cfg = second.Cfg, first.Cfg
	}
	if k%3 == 2 {
		second.Path = "/users/bob/inbox"
	}
	second.Pre = first
	switch k % 7 {
	case 5: // two Accepts (different activities) of one stored Follow
		fid := fmt.Sprintf("%s/follows/again-%d", local, k)
		w.Store[fid] = jmap{"@context": asCtx, "type": "Follow", "id": fid, "actor": actorID(local, "alice"), "object": sender}
		w.Owned[fid] = true
		acc := func(i int) jmap {
			return jmap{"@context": asCtx, "type": "Accept", "id": fmt.Sprintf("%s/activities/again-accept-%d-%d", remote, k, i), "actor": sender,
				"object": jmap{"type": "Follow", "id": fid, "actor": actorID(local, "alice"), "object": sender}}
		}
		second = inboxScenario("again:accept-twice", w, cfg, acc(1))
		second.Pre = inboxScenario("again:first", w, cfg, acc(0))
	case 6: // two deliveries from two outboxes through one actor value: each excludes its own sender's inbox
		mk := func(owner string, i int) *scenario {
			b := jmap{"@context": asCtx, "type": "Like", "actor": actorID(local, owner), "object": fmt.Sprintf("%s/notes/%d", remote, 10+i),
				"to": []interface{}{actorID(local, "alice"), actorID(local, "bob"), pick(r, remoteActors)}}
			sc := outboxScenario("again:two-outboxes", w, cfg, b)
			sc.Path = "/users/" + owner + "/outbox"
			sc.Entry = "send"
			sc.Send = b
			sc.Body = nil
			return sc
		}
		w.InboxForActor[actorID(local, "alice")] = inboxOf(actorID(local, "alice"))
		w.InboxForActor[actorID(local, "bob")] = inboxOf(actorID(local, "bob"))
		second = mk("alice", 1)
		second.Pre = mk("bob", 0)
		if k%14 == 13 { // two outboxes with one path on two hosts this server answers for: each bare object is wrapped for its own outbox's owner
			mirror := "https://mirror.example"
			ma := actorID(mirror, "alice")
			w.ActorForOutbox[outboxOf(ma)] = ma
			w.Store[ma] = person(ma)
			w.Owned[ma] = true
			note := func(i int) *scenario {
				b := jmap{"@context": asCtx, "type": "Note", "content": fmt.Sprintf("bare %d-%d", k, i), "to": pick(r, remoteActors)}
				sc := outboxScenario("again:two-hosts", w, cfg, b)
				sc.Path = "/users/alice/outbox"
				return sc
			}
			second = note(1)
			second.Pre = note(0)
			second.Pre.Host = "mirror.example"
		}
	case 4: // two GETs, the clock of the first ahead of the second's: each response carries its own Date
		g := genGet(r, []string{"inbox", "outbox", "handler"}[k%3], k)
		g.Family = "again:get-twice"
		pre := *g
		pre.ClockDelta = int64(1 + r.intn(3))
		g.Pre = &pre
		second = g
	}
	return second
}

// ---- hidden recipients (C03), stratified ----------------------------------------------------------------------
// Both protocols on; bto / bcc on the activity only, on an embedded object only, on both, on the second object only; the hidden
// recipients are addressed nowhere else, so whether they are resolved for delivery shows.
func genHidden(r *rng, k int) *scenario {
	w := baseWorld(r)
	cfg := defaultCfg()
	cfg.MaxDelivery = 1 + r.intn(4)
	alice := actorID(local, "alice")
	hid1, hid2 := actorID(remote, "carol"), actorID(remote, "dave")
	note := func(i int) jmap { return jmap{"type": "Note", "content": fmt.Sprintf("hidden %d-%d", k, i)} }
	hide := func(m jmap) {
		m["bto"] = iriOrEmbedded(r, hid1)
		if r.chance(1, 2) {
			m["bcc"] = hid2
		}
	}
	var body jmap
	kind := k % 6
	switch kind {
	case 0: // bare object
		body = note(0)
		body["@context"] = asCtx
		hide(body)
	case 1, 2, 3, 4: // explicit Create
		body = jmap{"@context": asCtx, "type": "Create", "actor": alice}
		o0, o1 := note(0), note(1)
		switch kind {
		case 1:
			hide(body)
		case 2:
			hide(o0)
		case 3:
			hide(body)
			o0["bcc"] = hid2
		case 4:
			hide(o1)
		}
		if kind == 4 || r.chance(1, 3) {
			body["object"] = []interface{}{o0, o1}
		} else {
			body["object"] = o0
		}
	default: // another activity type
		body = jmap{"@context": asCtx, "type": pick(r, []string{"Like", "Follow", "Listen"}), "actor": alice, "object": actorID(remote, "erin")}
		hide(body)
	}
	if r.chance(1, 2) {
		body["to"] = actorID(remote, "erin")
	}
	if k%7 == 6 { // the sending actor's stored document has no inbox
		a := deepCopy(w.Store[alice])
		delete(a, "inbox")
		w.Store[alice] = a
	}
	sc := outboxScenario("hidden:"+fmt.Sprint(kind), w, cfg, body)
	if k%5 == 4 && kind != 0 {
		sc.Entry = "send"
		sc.Send = body
		sc.Body = nil
		if k%10 == 9 { // a Federating-only actor
			sc.Cfg.Social = false
		}
	}
	if k%9 == 8 { // an inbound Follow carrying hidden recipients, answered automatically: the Accept / Reject embeds it
		f := jmap{"@context": asCtx, "type": "Follow", "id": fmt.Sprintf("%s/activities/hidden-follow-%d", remote, k), "actor": hid1, "object": alice,
			"bto": hid2, "bcc": actorID(remote, "erin")}
		// (already recorded as seen: the automatic reply strips the embedded Follow in place, which is the very value InboxForwarding
		// would record afterwards - see DESIGN.md, "observed, not claimed")
		w.Store[f["id"].(string)] = deepCopy(f)
		sc = inboxScenario("hidden:follow", w, cfg, f)
		sc.Cfg.OnFollow = 1 + k%2
		if k%18 == 17 {
			sc.Cfg.Social = false
		}
	}
	return sc
}

// ---- GET endpoints ----------------------------------------------------------------------------------------

func genGet(r *rng, kind string, k int) *scenario {
	w := baseWorld(r)
	cfg := defaultCfg()
	alice := actorID(local, "alice")
	sc := &scenario{Family: "get:" + kind, Cfg: cfg, World: w, Method: "GET", Accept: apContentType, Tags: map[string]bool{}}
	sc.PreHeaders = k%3 == 1 // the application has already put headers of its own on the response
	w.ClockNanos = []int64{0, 499999999, 500000000, 750000000, 999999999}[k%5] // the clock has a sub-second part: a Date drops it
	defer func() {
		if k%7 == 5 && !strings.Contains(sc.Path, "?") { // a query string is part of the id that is locked, read and unlocked
			sc.Path += "?page=2&min_id=0"
		}
	}()
	items := []interface{}{}
	n := r.intn(12)
	for i := 0; i < n; i++ {
		id := fmt.Sprintf("%s/activities/%d", remote, r.intn(6))
		if r.chance(1, 4) { // ids that differ only in the case of their path are different ids
			id = remote + "/activities/" + pick(r, []string{"Zm9vYmFy", "zm9vYmFy", "ZM9VYMFY"})
		}
		if r.chance(1, 3) {
			items = append(items, jmap{"type": "Like", "id": id, "actor": pick(r, remoteActors), "object": local + "/notes/1"})
		} else {
			items = append(items, id)
		}
	}
	switch kind {
	case "inbox":
		sc.Entry, sc.Path = "getinbox", "/users/alice/inbox"
		if n > 0 {
			w.Inboxes[inboxOf(alice)]["orderedItems"] = one(items)
		}
	case "outbox":
		sc.Entry, sc.Path = "getoutbox", "/users/alice/outbox"
		if n > 0 {
			w.Outboxes[outboxOf(alice)]["orderedItems"] = one(items)
		}
	case "handler":
		sc.Entry = "handler"
		sc.Path = fmt.Sprintf("/notes/%d", 1+r.intn(4)) // note 4 does not exist
		if k%5 == 3 { // nothing stored under the requested id: the Database answers (nil, nil)
			sc.Path = pick(r, []string{"/notes/4", "/nothing/here", "/users/alice/nothing"})
			w.Clock = int64(r.intn(2000000000)) - 100000000
			return sc
		}
		if r.chance(1, 4) || k%5 == 1 { // every fifth handler scenario serves a Tombstone, every other of them under several type names
			id := local + "/tomb/1"
			w.Store[id] = jmap{"@context": asCtx, "type": "Tombstone", "id": id, "formerType": "Note", "deleted": "2020-01-01T00:00:00Z"}
			if r.chance(1, 2) { // a Tombstone that kept hidden recipients
				w.Store[id]["bto"] = actorID(remote, "carol")
				w.Store[id]["bcc"] = []interface{}{actorID(remote, "dave"), jmap{"type": "Person", "id": actorID(remote, "erin")}}
			}
			if r.chance(1, 2) || k%10 == 1 { // a Tombstone under several type names
				w.Store[id]["type"] = []interface{}{"Tombstone", "ext:Archived"}
			}
			sc.Path = "/tomb/1"
		}
		if k%10 == 4 || k%10 == 9 { // hidden recipients four to six object levels below the served value
			id := local + "/activities/deep"
			var v interface{} = jmap{"type": "Note", "id": local + "/notes/deepest", "content": "deep", "bto": actorID(remote, "carol"), "bcc": []interface{}{actorID(remote, "dave")}}
			depth := 4 + k%3
			for d := 0; d < depth; d++ {
				ty := []string{"Offer", "Create", "Announce", "Undo", "Invite", "Add"}[d%6]
				w0 := jmap{"type": ty, "id": fmt.Sprintf("%s/activities/deep-%d", local, d), "actor": alice, "object": v}
				if d%2 == 1 {
					w0["bcc"] = actorID(remote, "erin")
				}
				v = w0
			}
			top := v.(jmap)
			top["@context"] = asCtx
			top["id"] = id
			top["to"] = public
			w.Store[id] = top
			sc.Path = "/activities/deep"
			w.Clock = int64(r.intn(2000000000)) - 100000000
			return sc
		}
		if k%5 == 2 { // embedded values without an id, and two embedded values under one id: each is stripped, at every depth
			id := local + "/activities/idless"
			n1 := jmap{"type": "Note", "content": "no id, one", "bto": actorID(remote, "carol")}
			n2 := jmap{"type": "Note", "content": "no id, two", "bcc": []interface{}{actorID(remote, "dave"), actorID(remote, "erin")},
				"object": jmap{"type": "Note", "content": "no id, below", "bto": actorID(remote, "erin")}}
			same1 := jmap{"type": "Note", "id": local + "/notes/same", "content": "first under this id", "bcc": actorID(remote, "dave")}
			same2 := jmap{"type": "Note", "id": local + "/notes/same", "content": "second under this id", "bto": actorID(remote, "carol")}
			w.Store[id] = jmap{"@context": asCtx, "type": "Offer", "id": id, "actor": alice, "to": public, "bto": actorID(remote, "carol"),
				"object": []interface{}{n1, n2, same1, same2}}
			sc.Path = "/activities/idless"
			w.Clock = int64(r.intn(2000000000)) - 100000000
			return sc
		}
		if k%5 != 1 && r.chance(1, 2) { // hidden recipients at several depths
			id := local + "/activities/served"
			inner := jmap{"type": "Note", "id": local + "/notes/x", "content": "x", "bto": actorID(remote, "carol"), "bcc": []interface{}{actorID(remote, "dave"), actorID(remote, "erin")}}
			mid := jmap{"type": "Create", "id": local + "/activities/mid", "actor": alice, "object": inner, "bcc": actorID(remote, "erin")}
			w.Store[id] = jmap{"@context": asCtx, "type": "Announce", "id": id, "actor": alice, "object": []interface{}{mid, local + "/notes/1"}, "bto": actorID(remote, "carol"), "to": public}
			if r.chance(1, 3) { // nesting through a value that is no activity
				w.Store[id] = jmap{"@context": asCtx, "type": "Offer", "id": id, "actor": alice, "to": public,
					"object": jmap{"type": "Relationship", "id": local + "/rel/1", "subject": alice, "bcc": actorID(remote, "erin"), "object": inner}}
			} else if r.chance(1, 2) { // an IRI before the embedded values
				w.Store[id]["object"] = []interface{}{local + "/notes/2", mid, jmap{"type": "Note", "id": local + "/notes/y", "bcc": actorID(remote, "dave")}}
			}
			sc.Path = "/activities/served"
		}
	}
	w.Clock = int64(r.intn(2000000000)) - 100000000
	return sc
}

// ---- the C07/C10 product: entry x protocols x auth x block x method x header x body -------------------------

var headerVariants = []string{
	"application/activity+json",
	`application/ld+json; profile="https://www.w3.org/ns/activitystreams"`,
	`application/ld+json;profile=https://www.w3.org/ns/activitystreams`,
	`application/ld+json ; profile="https://www.w3.org/ns/activitystreams"`,
	`application/ld+json ;profile=https://www.w3.org/ns/activitystreams`,
	`text/html, application/activity+json;q=0.9`,
	"application/ld+json",
	`application/ld+json;  profile="https://www.w3.org/ns/activitystreams"`,
	"application/json",
	"text/html",
	"",
	"APPLICATION/ACTIVITY+JSON",
}

func gateScenarios(r *rng, sample int) []*scenario {
	var all []*scenario
	alice := actorID(local, "alice")
	bodies := []func() (jmap, string){
		func() (jmap, string) {
			return jmap{"@context": asCtx, "type": "Like", "id": remote + "/activities/like-gate", "actor": actorID(remote, "carol"), "object": local + "/notes/1"}, ""
		},
		func() (jmap, string) { return jmap{"@context": asCtx, "type": "Note", "content": "bare"}, "" },
		func() (jmap, string) {
			return jmap{"@context": asCtx, "type": "Frobnicate", "id": remote + "/activities/x", "actor": actorID(remote, "carol")}, ""
		},
		func() (jmap, string) { return nil, "this is not json" },
	}
	for _, entry := range []string{"postinbox", "postoutbox", "getinbox", "getoutbox", "handler"} {
		for _, proto := range []string{"social", "federating", "both", "none"} {
			if proto == "none" && !(entry == "postinbox" || entry == "postoutbox") {
				continue // the GET entry points of a custom actor are the application's delegate
			}
			for _, auth := range []string{"ok", "denied", "error", "errortrue"} {
				for _, block := range []string{"no", "yes", "error", "errortrue"} {
					if entry != "postinbox" && block != "no" {
						continue
					}
					for _, method := range []string{"GET", "POST", "HEAD", "PUT", "post", "Get"} { // method tokens are case-sensitive
						for hi, hv := range headerVariants {
							for bi := range bodies {
								if (entry == "getinbox" || entry == "getoutbox" || entry == "handler") && bi > 0 {
									continue
								}
								cfg := defaultCfg()
								cfg.Social = proto == "social" || proto == "both"
								cfg.Federating = proto == "federating" || proto == "both"
								cfg.Auth = auth
								switch block {
								case "yes":
									cfg.Blocked = []string{actorID(remote, "carol")}
								case "error":
									cfg.BlockError = true
								case "errortrue":
									cfg.BlockError, cfg.BlockErrorTrue = true, true
								}
								sc := &scenario{Family: "gate:" + entry, Cfg: cfg, Entry: entry, Method: method, Tags: map[string]bool{}}
								sc.Note = fmt.Sprintf("%s/%s/auth=%s/block=%s/%s/h%d/b%d", entry, proto, auth, block, method, hi, bi)
								switch entry {
								case "postinbox":
									sc.Path = "/users/alice/inbox"
								case "postoutbox":
									sc.Path = "/users/alice/outbox"
								case "getinbox":
									sc.Path = "/users/alice/inbox"
								case "getoutbox":
									sc.Path = "/users/alice/outbox"
								default:
									sc.Path = "/notes/1"
								}
								if method == "GET" || method == "HEAD" || method == "Get" {
									sc.Accept = hv
									if r.chance(1, 3) {
										sc.ContentType = apContentType // the other header must not matter
									}
								} else {
									sc.ContentType = hv
									if r.chance(1, 3) {
										sc.Accept = apContentType
									}
								}
								b, raw := bodies[bi]()
								sc.Body, sc.RawBody = b, raw
								sc.PreHeaders = (len(all)+hi)%4 == 1
								_ = alice
								all = append(all, sc)
							}
						}
					}
				}
			}
		}
	}
	if sample <= 0 || sample >= len(all) {
		for _, sc := range all {
			sc.World = baseWorld(r)
		}
		return all
	}
	// covering sample: every value of every dimension appears; the rest random
	var out []*scenario
	for _, sc := range all { // always: wrong method x ActivityPub content type x disabled protocol, and (true, error) authentication
		wrongMethodDisabled := sc.Method != "POST" && sc.ContentType == apContentType && ((sc.Entry == "postinbox" && !sc.Cfg.Federating) || (sc.Entry == "postoutbox" && !sc.Cfg.Social)) && sc.Cfg.Auth == "ok" && sc.Body != nil && sc.Body["type"] == "Like"
		authTrueErr := sc.Cfg.Auth == "errortrue" && sc.Method == map[string]string{"postinbox": "POST", "postoutbox": "POST", "getinbox": "GET", "getoutbox": "GET", "handler": "GET"}[sc.Entry] &&
			(sc.ContentType == apContentType || sc.Accept == apContentType) && sc.Cfg.Social && sc.Cfg.Federating && len(sc.Cfg.Blocked) == 0 && !sc.Cfg.BlockError && (sc.Body == nil || sc.Body["type"] == "Like" || sc.Body["type"] == "Note")
		blockTrueErr := sc.Cfg.BlockErrorTrue && sc.Entry == "postinbox" && sc.Method == "POST" && sc.ContentType == apContentType && sc.Cfg.Auth == "ok" &&
			sc.Cfg.Federating && sc.Body != nil && sc.Body["type"] == "Like"
		if wrongMethodDisabled || authTrueErr || blockTrueErr {
			sc.World = baseWorld(r)
			out = append(out, sc)
		}
	}
	step := len(all) / sample
	if step < 1 {
		step = 1
	}
	off := r.intn(step)
	for i := off; i < len(all); i += step {
		j := i + r.intn(step)
		if j >= len(all) {
			j = i
		}
		all[j].World = baseWorld(r)
		out = append(out, all[j])
	}
	return out
}

// every vocabulary type served by the handler, with hidden recipients where the type admits them
func genGetTypes(r *rng) []*scenario {
	t := loadTables()
	var out []*scenario
	for i, ty := range t.Types {
		if ty.Typeless {
			continue
		}
		w := baseWorld(r)
		id := fmt.Sprintf("%s/typed/%d", local, i)
		v := jmap{"@context": allContexts, "type": ty.Name, "id": id}
		hasField := func(n string) bool {
			for _, f := range ty.Fields {
				if f.GoName == n {
					return true
				}
			}
			return false
		}
		if hasField("ActivityStreamsName") {
			v["name"] = "a " + ty.Name
		}
		if hasField("ActivityStreamsBto") {
			v["bto"] = actorID(remote, "carol")
			v["bcc"] = []interface{}{actorID(remote, "dave"), actorID(remote, "erin")}
		}
		if hasField("ActivityStreamsObject") && r.chance(1, 2) {
			v["object"] = jmap{"type": "Note", "id": id + "/o", "bto": actorID(remote, "erin")}
		}
		w.Store[id] = v
		w.Owned[id] = true
		w.Clock = int64(r.intn(2000000000)) - 100000000
		out = append(out, &scenario{Family: "get:type", Cfg: defaultCfg(), World: w, Entry: "handler", Method: "GET", Accept: apContentType,
			Path: fmt.Sprintf("/typed/%d", i), Tags: map[string]bool{}})
	}
	return out
}

// ---- C02: random federation graphs, delivered through Send ---------------------------------------------------

func genDeliver(r *rng, k int) *scenario {
	w := baseWorld(r)
	cfg := defaultCfg()
	cfg.MaxDelivery = 1 + r.intn(4)
	alice := actorID(local, "alice")
	// nodes: actors a0..a(n-1) on two hosts, collections c0..c(m-1); some unreachable / garbled / unknown type / no inbox
	na, nc := 2+r.intn(6), 1+r.intn(5)
	var actors, cols, all []string
	for i := 0; i < na; i++ {
		host := remote
		if r.chance(1, 3) {
			host = remote2
		}
		actors = append(actors, fmt.Sprintf("%s/g%d/actors/a%d", host, k, i))
	}
	for i := 0; i < nc; i++ {
		cols = append(cols, fmt.Sprintf("%s/g%d/cols/c%d", remote, k, i))
	}
	all = append(append(all, actors...), cols...)
	all = append(all, public, "as:Public", alice, actorID(local, "bob"), fmt.Sprintf("%s/g%d/missing", remote, k))
	for _, a := range actors {
		switch r.intn(12) {
		case 0:
			w.Remote[a] = remoteDoc{Kind: "unreachable"}
		case 1:
			w.Remote[a] = remoteDoc{Kind: "notjson", Raw: "<html>not json</html>"}
		case 2:
			w.Remote[a] = remoteDoc{Kind: "doc", Doc: jmap{"@context": asCtx, "type": "Gizmo", "id": a, "inbox": a + "/inbox"}}
		case 3:
			w.Remote[a] = remoteDoc{Kind: "doc", Doc: jmap{"type": "Person", "id": a, "inbox": a + "/inbox"}} // no @context
		case 4:
			if r.chance(1, 3) { // an actor document without an inbox: fails the delivery
				w.Remote[a] = remoteDoc{Kind: "doc", Doc: jmap{"@context": asCtx, "type": "Person", "id": a}}
				break
			}
			fallthrough
		default:
			p := person(a)
			if r.chance(1, 4) { // a shared inbox: two actors, one inbox URL
				p["inbox"] = remote + "/shared/inbox"
			}
			if r.chance(1, 8) {
				p["type"] = pick(r, []string{"Service", "Group", "Application", "Organization"})
			}
			w.Remote[a] = remoteDoc{Kind: "doc", Doc: p}
		}
		if r.chance(1, 4) {
			w.InboxForActor[a] = a + "/stored-inbox"
		}
	}
	for i, c := range cols {
		var items []interface{}
		for j := 0; j < r.intn(5); j++ {
			switch r.intn(6) {
			case 0: // nested / cyclic
				items = append(items, pick(r, cols))
			case 1:
				if i+1 < len(cols) { // a chain: depth matters
					items = append(items, cols[i+1])
				} else {
					items = append(items, pick(r, actors))
				}
			case 2:
				items = append(items, pick(r, all))
			default:
				items = append(items, pick(r, actors))
			}
		}
		if r.chance(1, 3) && len(items) > 0 {
			items = append(items, items[0]) // duplicates
		}
		ty := pick(r, []string{"Collection", "OrderedCollection", "CollectionPage", "OrderedCollectionPage"})
		doc := jmap{"@context": asCtx, "type": ty, "id": c}
		if strings.HasPrefix(ty, "Ordered") {
			doc["orderedItems"] = one(items)
		} else {
			doc["items"] = one(items)
		}
		if len(items) == 0 {
			delete(doc, "items")
			delete(doc, "orderedItems")
		}
		w.Remote[c] = remoteDoc{Kind: "doc", Doc: doc}
		if r.chance(1, 10) {
			w.Remote[c] = remoteDoc{Kind: "unreachable"}
		}
	}
	if r.chance(1, 3) {
		w.InboxForActor[actorID(local, "bob")] = inboxOf(actorID(local, "bob"))
	}
	if r.chance(1, 6) {
		w.InboxForActor[alice] = inboxOf(alice) // the sender's own inbox, stored
	}
	// an application that would answer for Public if it were ever asked
	w.InboxForActor[public] = remote + "/public-sink"
	w.InboxForActor["as:Public"] = remote + "/public-sink"
	body := jmap{"@context": asCtx, "type": pick(r, []string{"Create", "Announce", "Like", "Travel", "Offer"}), "actor": alice,
		"object": jmap{"type": "Note", "content": fmt.Sprintf("g%d", k)}}
	for _, p := range []string{"to", "bto", "cc", "bcc", "audience"} {
		if !r.chance(3, 5) {
			continue
		}
		var l []interface{}
		for i := 0; i < 1+r.intn(4); i++ {
			id := pick(r, all)
			if r.chance(1, 3) {
				id = pick(r, cols)
			}
			ev := iriOrEmbedded(r, id)
			if m, ok := ev.(jmap); ok && r.chance(1, 2) { // an embedded copy of the actor that claims an inbox of its own
				m["inbox"] = id + "/inbox-claimed-by-the-embedded-copy"
			}
			l = append(l, ev)
			if r.chance(1, 5) { // the same id twice in a row (also Public twice)
				l = append(l, id)
			}
		}
		body[p] = one(l)
	}
	if k%4 == 1 && len(actors) >= 2 { // IRIs that differ only in the case of a path letter are different IRIs: two such inboxes both
		// receive the activity, and an inbox that equals the sender's own up to case is no reason to leave its owner out
		last := actors[len(actors)-1]
		p0, p1 := person(actors[0]), person(actors[1])
		p1["inbox"] = strings.Replace(p0["inbox"].(string), "/actors/a0", "/actors/A0", 1)
		w.Remote[actors[0]], w.Remote[actors[1]] = remoteDoc{Kind: "doc", Doc: p0}, remoteDoc{Kind: "doc", Doc: p1}
		delete(w.InboxForActor, actors[0])
		delete(w.InboxForActor, actors[1])
		w.InboxForActor[last] = strings.Replace(inboxOf(alice), "/alice/", "/Alice/", 1)
		body["to"] = []interface{}{actors[0], actors[1], last}
	}
	sc := outboxScenario("deliver:"+body["type"].(string), w, cfg, body)
	sc.Entry = "send"
	sc.Send = body
	sc.Body = nil
	if body["type"] == "Create" { // social normalisation copies many ids in Go map order: judged, not replayed
		sc.NoReplay = true
	}
	if r.chance(1, 4) { // the same graph reached by a client POST
		sc.Entry = "postoutbox"
		sc.Body = body
		sc.Send = nil
	}
	return sc
}

// ---- C05: sequences of posts to the same and to different outboxes, against one evolving world -----------------

func listing(p jmap) []interface{} {
	switch x := p["orderedItems"].(type) {
	case nil:
		return nil
	case []interface{}:
		return x
	default:
		return []interface{}{x}
	}
}

// runSeq runs 1..8 posts and returns the executed (scenario, result) pairs; histories go to the emitter.
func runSeq(r *rng, k int, em *emitter) (scs []*scenario, ress []runResult) {
	w := baseWorld(r)
	cfg := defaultCfg()
	if r.chance(1, 4) {
		cfg.Federating = false
	}
	owners := []string{"alice", "bob"}
	init := map[string][]interface{}{}
	for _, o := range owners {
		ob := outboxOf(actorID(local, o))
		var l []interface{}
		for i := 0; i < r.intn(3); i++ {
			l = append(l, fmt.Sprintf("%s/old/%s/%d", local, o, i))
		}
		if len(l) > 0 {
			w.Outboxes[ob]["orderedItems"] = one(l)
		}
		init[ob] = l
	}
	accepted := map[string][]string{}
	tainted := map[string]bool{}
	n := 1 + r.intn(8)
	for j := 0; j < n; j++ {
		owner := pick(r, owners)
		actor := actorID(local, owner)
		ob := outboxOf(actor)
		ty := pick(r, []string{"Note", "Create", "Like", "Block", "Follow", "Listen", "Announce", "Delete", "Add"})
		var body jmap
		switch ty {
		case "Note":
			body = jmap{"@context": asCtx, "type": "Note", "content": fmt.Sprintf("s%d-%d", k, j), "to": pick(r, remoteActors)}
		case "Create":
			body = jmap{"@context": asCtx, "type": "Create", "actor": actor, "object": jmap{"type": "Note", "content": fmt.Sprintf("s%d-%d", k, j)}, "to": pick(r, remoteActors)}
		case "Delete":
			body = jmap{"@context": asCtx, "type": "Delete", "actor": actor, "object": fmt.Sprintf("%s/notes/%d", local, 1+r.intn(3)), "to": pick(r, remoteActors)}
		case "Add":
			body = jmap{"@context": asCtx, "type": "Add", "actor": actor, "object": pick(r, remoteActors), "target": local + "/cols/1"}
		default:
			body = jmap{"@context": asCtx, "type": ty, "actor": actor, "object": fmt.Sprintf("%s/notes/%d", remote, 10+r.intn(4)), "to": pick(r, remoteActors)}
		}
		if r.chance(1, 8) && ty != "Note" {
			delete(body, "object") // answered 400: not accepted, must not be listed
		}
		w.NewIDBase = fmt.Sprintf("%s/new/s%d-%d", local, k, j)
		sc := outboxScenario("seq:"+ty, w, cfg, body)
		sc.Path = "/users/" + owner + "/outbox"
		if r.chance(1, 3) {
			sc.Entry = "send"
			sc.Send = body
			sc.Body = nil
			sc.Cfg.Federating = true
		}
		if r.chance(1, 4) { // one fallible call of this post fails
			sc.Faults = []int{r.intn(40)}
		}
		res := runScenario(sc)
		scs = append(scs, sc)
		ress = append(ress, res)
		ok201 := false
		for _, st := range res.Statuses {
			if st == 201 {
				ok201 = true
			}
		}
		id := ""
		if sc.Entry == "send" {
			if res.Result == "ok" && res.Sent != nil {
				id, _ = res.Sent["id"].(string)
			}
		} else if ok201 && res.Result == "ok" {
			for _, e := range res.Trace {
				if e.Kind == "setheader" && e.Name == "Location" {
					id = e.Strs[0]
				}
			}
		}
		if id != "" {
			accepted[ob] = append(accepted[ob], id)
		} else {
			// a post that fails after its outbox write (delivery error) is listed although the client saw an error:
			// such a history is not a sequence of accepted posts and is not judged by the listing equation
			for _, e := range res.Trace {
				if e.Kind == "db" && e.Name == "SetOutbox" && e.Ans.Kind == "ok" {
					tainted[ob] = true
				}
			}
		}
		w = res.Final
	}
	for _, o := range owners {
		ob := outboxOf(actorID(local, o))
		if !tainted[ob] {
			em.history(init[ob], accepted[ob], listing(w.Outboxes[ob]))
		}
	}
	return
}

// ---- C16: focused client activities against stored values with random member sets -----------------------------

func genEffects(r *rng, ty string, k int) *scenario {
	w := baseWorld(r)
	cfg := defaultCfg()
	if r.chance(1, 4) {
		cfg.Federating = false
	}
	if r.chance(1, 6) {
		cfg.SocWrapped = []string{ty}
	}
	alice := actorID(local, "alice")
	members := []string{"content", "summary", "name", "mediaType", "published", "updated", "url", "attributedTo", "inReplyTo", "to"}
	val := func(m string, gen int) interface{} {
		switch m {
		case "published", "updated":
			return fmt.Sprintf("20%02d-01-02T03:04:05Z", 10+gen)
		case "url", "attributedTo", "inReplyTo", "to":
			return fmt.Sprintf("%s/ref/%s/%d", remote, m, gen)
		}
		return fmt.Sprintf("%s-%d-%d", m, k, gen)
	}
	people := []string{actorID(remote, "carol"), actorID(remote, "dave"), actorID(remote, "zed"), actorID(remote, "erin")}
	var body jmap
	switch ty {
	case "Update":
		body = jmap{"@context": asCtx, "type": "Update", "actor": alice}
		var objs []interface{}
		for i := 0; i < 1+r.intn(3); i++ {
			id := fmt.Sprintf("%s/notes/%d", local, 1+r.intn(3))
			stored := jmap{"@context": asCtx, "type": pick(r, []string{"Note", "Article", "Page"}), "id": id}
			for _, m := range members {
				if r.chance(1, 2) {
					stored[m] = val(m, 0)
				}
			}
			w.Store[id] = stored
			o := jmap{"type": stored["type"], "id": id}
			for _, m := range members {
				switch r.intn(5) {
				case 0:
					o[m] = val(m, 1+i) // overlapping or new
				case 1:
					o[m] = nil // explicit null: remove
				}
			}
			objs = append(objs, o)
		}
		body["object"] = one(objs)
		if r.chance(1, 3) {
			body["summary"] = nil
		}
	case "Delete":
		body = jmap{"@context": asCtx, "type": "Delete", "actor": alice}
		var objs []interface{}
		for i := 0; i < 1+r.intn(3); i++ {
			id := fmt.Sprintf("%s/notes/%d", local, 1+r.intn(3))
			stored := jmap{"@context": asCtx, "type": pick(r, []string{"Note", "Article", "Image", "Person"}), "id": id, "content": "x"}
			if r.chance(1, 2) {
				stored["published"] = val("published", i)
			}
			if r.chance(1, 2) {
				stored["updated"] = val("updated", i+3)
			}
			w.Store[id] = stored
			if r.chance(1, 3) {
				objs = append(objs, jmap{"type": "Note", "id": id})
			} else {
				objs = append(objs, id)
			}
		}
		body["object"] = one(objs)
	case "Add", "Remove":
		body = jmap{"@context": asCtx, "type": ty, "actor": alice}
		// targets: owned unordered / owned ordered / not owned / owned non-collection; heavy duplicates
		for i, cty := range []string{"Collection", "OrderedCollection", "CollectionPage", "OrderedCollectionPage"} {
			id := fmt.Sprintf("%s/cols/%d", local, i+1)
			var items []interface{}
			for j := 0; j < r.intn(6); j++ {
				items = append(items, pick(r, people))
			}
			c := jmap{"@context": asCtx, "type": cty, "id": id}
			if len(items) > 0 {
				if strings.HasPrefix(cty, "Ordered") {
					c["orderedItems"] = one(items)
				} else {
					c["items"] = one(items)
				}
			}
			w.Store[id] = c
			w.Owned[id] = r.chance(3, 4)
		}
		var objs, targets []interface{}
		for i := 0; i < 1+r.intn(3); i++ {
			objs = append(objs, iriOrEmbedded(r, pick(r, people)))
		}
		for i := 0; i < 1+r.intn(3); i++ {
			targets = append(targets, pick(r, []string{local + "/cols/1", local + "/cols/2", local + "/cols/3", local + "/cols/4", remote + "/notes/9", remote + "/cols/9", local + "/notes/1"}))
		}
		switch k % 3 { // a target this server does not own before / between targets it owns
		case 1:
			t := fmt.Sprintf("%s/cols/%d", local, 1+k%4)
			w.Owned[t] = true
			targets = []interface{}{remote + "/cols/9", t}
		case 2:
			t1, t2 := fmt.Sprintf("%s/cols/%d", local, 1+k%4), fmt.Sprintf("%s/cols/%d", local, 1+(k+1)%4)
			w.Owned[t1], w.Owned[t2] = true, true
			targets = []interface{}{t1, remote + "/cols/9", t2}
		}
		body["object"] = one(objs)
		body["target"] = one(targets)
	case "Like":
		body = jmap{"@context": asCtx, "type": "Like", "actor": pick(r, []string{alice, alice, actorID(local, "bob")})}
		var objs []interface{}
		for i := 0; i < 1+r.intn(3); i++ {
			objs = append(objs, iriOrEmbedded(r, fmt.Sprintf("%s/notes/%d", remote, 10+r.intn(3))))
		}
		body["object"] = one(objs)
		if r.chance(1, 2) {
			var old []interface{}
			for j := 0; j < 1+r.intn(3); j++ {
				old = append(old, fmt.Sprintf("%s/notes/%d", remote, 10+r.intn(5)))
			}
			w.Liked[alice]["items"] = one(old)
		}
	case "Block":
		body = jmap{"@context": asCtx, "type": "Block", "actor": alice}
		var objs []interface{}
		for i := 0; i < 1+r.intn(3); i++ {
			objs = append(objs, iriOrEmbedded(r, pick(r, people)))
		}
		body["object"] = one(objs)
	}
	addressing(r, body, w)
	switch r.intn(10) {
	case 0:
		delete(body, "object")
	case 1:
		body["object"] = []interface{}{}
	case 2:
		if ty == "Add" || ty == "Remove" {
			delete(body, "target")
		}
	}
	sc := outboxScenario("effects:"+ty, w, cfg, body)
	sc.Tags[ty] = true
	if r.chance(1, 4) && ty != "Update" {
		sc.Entry = "send"
		sc.Send = body
		sc.Body = nil
		sc.Cfg.Federating = true
	}
	return sc
}

// ---- C17: reply chains, owned / foreign collections, repeated deliveries ---------------------------------------

// runForward delivers one activity 1..3 times to one or two local inboxes against one evolving world.
func runForward(r *rng, k int) (scs []*scenario, ress []runResult) {
	w := baseWorld(r)
	cfg := defaultCfg()
	cfg.MaxForwarding = 1 + r.intn(4)
	cfg.Filter = pick(r, []string{"all", "all", "first", "none"})
	alice := actorID(local, "alice")
	sender := pick(r, remoteActors[:3])
	id := fmt.Sprintf("%s/activities/fwd-%d", remote, k)
	if k%4 == 3 { // an id with a fragment: it is the whole id that was or was not seen
		id = fmt.Sprintf("%s/users/carol#likes/%d", remote, k)
		if k%8 == 7 { // ... and the fragment-less IRI is something else this server already stores
			w.Store[remote+"/users/carol"] = jmap{"@context": asCtx, "type": "Person", "id": remote + "/users/carol"}
		}
	}
	act := jmap{"@context": asCtx, "type": pick(r, []string{"Create", "Announce", "Like", "Travel", "Update"}), "id": id, "actor": sender}
	if k%3 == 2 { // hidden recipients on a received activity are forwarded as received
		act["bto"] = actorID(remote, "zed")
		if r.chance(1, 2) {
			act["bcc"] = []interface{}{actorID(remote, "erin"), actorID(remote, "zed")}
		}
	}
	// a reply chain of depth 0..5: each level embedded or by IRI (dereferenced), ownership at a random level
	depth := r.intn(6)
	ownedAt := -1
	if r.chance(4, 5) {
		ownedAt = r.intn(depth + 1)
		if r.chance(1, 2) && ownedAt > 1 {
			ownedAt = r.intn(2)
		}
	}
	var build func(level int) interface{}
	build = func(level int) interface{} {
		host := remote
		if level == ownedAt {
			host = local
		}
		nid := fmt.Sprintf("%s/chain/%d/%d", host, k, level)
		n := jmap{"type": "Note", "id": nid, "content": fmt.Sprintf("level %d", level)}
		if level < depth {
			prop := pick(r, []string{"inReplyTo", "inReplyTo", "tag", "object", "target"})
			if prop == "object" || prop == "target" {
				n["type"] = "Offer"
			}
			n[prop] = build(level + 1)
		}
		if level == ownedAt {
			w.Owned[nid] = true
			st := deepCopy(n)
			st["@context"] = asCtx
			w.Store[nid] = st
		}
		if r.chance(1, 2) { // by IRI: the next level is found by dereferencing
			doc := deepCopy(n)
			doc["@context"] = asCtx
			switch r.intn(8) {
			case 0:
				w.Remote[nid] = remoteDoc{Kind: "unreachable"}
			default:
				w.Remote[nid] = remoteDoc{Kind: "doc", Doc: doc}
			}
			return nid
		}
		return n
	}
	first := build(0)
	if s, isIRI := first.(string); isIRI && k%5 == 1 { // a sibling on the same host that cannot be fetched, named first
		dead := fmt.Sprintf("%s/chain/%d/dead", remote, k)
		w.Remote[dead] = remoteDoc{Kind: "unreachable"}
		first = []interface{}{dead, s}
	}
	if act["type"] == "Update" {
		act["object"] = jmap{"type": "Note", "id": fmt.Sprintf("%s/notes/u%d", remote, k), "content": "u", "inReplyTo": first}
	} else if r.chance(1, 2) {
		act["object"] = first
	} else {
		act["object"] = jmap{"type": "Note", "id": fmt.Sprintf("%s/notes/f%d", remote, k), "content": "x"}
		act["inReplyTo"] = first
	}
	pool := []string{local + "/cols/1", local + "/cols/2", local + "/cols/1", local + "/cols/2", remote + "/cols/7", remote + "/cols/9", local + "/notes/2", alice, sender, public}
	for _, p := range []string{"to", "cc", "audience"} {
		if !r.chance(2, 3) {
			continue
		}
		var l []interface{}
		for i := 0; i < 1+r.intn(3); i++ {
			l = append(l, pick(r, pool))
		}
		act[p] = one(l)
	}
	switch k % 6 {
	case 4: // one value reached twice, first on a long path where the depth limit stops the search just before it is examined, then
		// on a shorter path where what it replies to (owned) is within the limit
		x := fmt.Sprintf("%s/chain/%d/shared", remote, k)
		ownedNote := local + "/notes/1"
		w.Remote[x] = remoteDoc{Kind: "doc", Doc: jmap{"@context": asCtx, "type": "Note", "id": x, "content": "shared", "inReplyTo": ownedNote}}
		e1a := jmap{"type": "Note", "id": fmt.Sprintf("%s/chain/%d/e1a", remote, k), "content": "e1a", "inReplyTo": x}
		e1 := jmap{"type": "Note", "id": fmt.Sprintf("%s/chain/%d/e1", remote, k), "content": "e1", "inReplyTo": e1a}
		e2 := jmap{"type": "Note", "id": fmt.Sprintf("%s/chain/%d/e2", remote, k), "content": "e2", "inReplyTo": x}
		delete(act, "inReplyTo")
		act["type"] = "Create"
		act["object"] = []interface{}{e1, e2}
		act["to"] = local + "/cols/1"
		cfg.MaxForwarding = 3
		cfg.Filter = "all"
	case 3: // an owned value that is no collection (an actor) addressed next to an owned collection whose id sorts after it
		zc := local + "/users/alice/zfollowers"
		w.Store[zc] = jmap{"@context": asCtx, "type": "Collection", "id": zc, "items": []interface{}{actorID(remote, "follower-of-alice"), actorID(remote, "dave")}}
		w.Owned[zc] = true
		w.Owned[alice] = true
		act["to"] = []interface{}{alice, zc}
		act["cc"] = actorID(local, "bob")
		cfg.Filter = "all"
	case 5: // two owned collections whose ids differ only in the fragment are two collections
		for _, f := range []string{"friends", "family"} {
			cid := local + "/lists#" + f
			w.Store[cid] = jmap{"@context": asCtx, "type": "Collection", "id": cid, "items": []interface{}{actorID(remote, "member-of-"+f), actorID(remote, "carol")}}
			w.Owned[cid] = true
		}
		act["to"] = []interface{}{local + "/lists#friends", alice}
		act["cc"] = local + "/lists#family"
		cfg.Filter = "all"
	}
	n := 1 + r.intn(3)
	for j := 0; j < n; j++ {
		owner := "alice"
		if r.chance(1, 3) {
			owner = "bob"
		}
		sc := inboxScenario("forward:"+act["type"].(string), w, cfg, act)
		sc.Path = "/users/" + owner + "/inbox"
		if r.chance(1, 6) {
			sc.Faults = []int{r.intn(60)}
		}
		res := runScenario(sc)
		scs = append(scs, sc)
		ress = append(ress, res)
		w = res.Final
	}
	return
}
