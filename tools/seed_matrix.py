#!/usr/bin/env python3
"""Run every seeded change against the check of its property and record the outcome in seeded/<id>/meta.json."""
import json, os, re, subprocess, sys, glob

ROOT = os.path.dirname(os.path.dirname(os.path.abspath(__file__)))
REPO = os.environ.get("VERIF_REPO", "/repo")
head = subprocess.run(["git", "-C", REPO, "log", "--format=%h", "-1"], capture_output=True, text=True).stdout.strip()
only = sys.argv[1:]
rows = []
for d in sorted(glob.glob(os.path.join(ROOT, "seeded", "*"))):
    sid = os.path.basename(d)
    if only and sid not in only and sid.split("-")[0] not in only:
        continue
    prop = sid.split("-")[0]
    patch = os.path.join(d, "patch.diff")
    meta_p = os.path.join(d, "meta.json")
    meta = json.load(open(meta_p))
    ok = subprocess.run(["git", "-C", REPO, "apply", "--check", patch], capture_output=True).returncode == 0
    if not ok:
        meta["detected_by"] = {"repo_head": head, "applies": False}
        json.dump(meta, open(meta_p, "w"), indent=1)
        rows.append((sid, "DOES-NOT-APPLY"))
        continue
    p = subprocess.run([os.path.join(ROOT, "tools", "mutant_run.sh"), patch, prop], capture_output=True, text=True, timeout=7200)
    out = p.stdout + p.stderr
    m = re.search(r"== %s rc=(\d+) (\d+) violation" % prop, out)
    lines = [l.strip() for l in out.splitlines() if l.startswith("VIOLATION") or l.startswith("    %s:" % prop)]
    concrete = any(l.startswith("VIOLATION") and "no-failing-input-found" not in l for l in lines)
    meta["detected_by"] = {"repo_head": head, "applies": True, "command": "./check %s (quick tier)" % prop, "exit_code": int(m.group(1)) if m else None,
                           "detected": bool(m and m.group(1) != "0"), "with_failing_input": concrete, "report": lines[:8]}
    json.dump(meta, open(meta_p, "w"), indent=1)
    rows.append((sid, "detected" + (" (failing input)" if concrete else " (no-failing-input-found)") if meta["detected_by"]["detected"] else "MISSED"))
    print(rows[-1], flush=True)
print(json.dumps(rows))
