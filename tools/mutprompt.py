#!/usr/bin/env python3
"""Prompt for a fresh sub-agent asked for changes to go-fed/activity that break one property.
usage: mutprompt.py <Cxx> <round> <worktree> <outdir>
The agent is given the property's text, its scratch worktree, and one-line summaries of the changes earlier rounds produced
(so that it looks elsewhere) - nothing from /verif."""
import json, os, sys, glob

ROOT = os.path.dirname(os.path.dirname(os.path.abspath(__file__)))
pid, rnd, wt, out = sys.argv[1], sys.argv[2], sys.argv[3], sys.argv[4]
ONE = len(sys.argv) > 5 and sys.argv[5] == "one"
prop = [json.loads(l) for l in open(os.path.join(ROOT, "properties.jsonl")) if l.strip() and json.loads(l)["id"] == pid][0]
earlier = []
for d in sorted(glob.glob(os.path.join(ROOT, "seeded", pid + "-*"))):
    try:
        earlier.append(json.load(open(os.path.join(d, "meta.json"))).get("summary", "")[:420])
    except Exception:
        pass
ordinal = {"2": "second", "3": "third", "4": "fourth", "5": "fifth", "6": "sixth"}.get(rnd, rnd + "th")
files = ", ".join(prop.get("anchors", {}).get("files", []))
print(f"""You are helping test a verification framework for the Go library go-fed/activity (ActivityStreams/ActivityPub). You have your own scratch git worktree of the repository at {wt} (work ONLY there and in {out}; never touch /repo or /verif).

Semantic property {pid} - {prop['title']}:
{prop['statement']}

It is meant to hold for: {prop['quantifier']['text']}
Relevant files: {files}

TASK: produce {"ONE realistic source change (mutation; write it as mutation 1)" if ONE else "up to TWO different realistic source changes (mutations)"} to the library code (non-test .go files; for generated code under streams/ you may edit the generated files directly, and optionally the generator under astool/ too) such that each change
  (a) BREAKS the property above,
  (b) still compiles (`go build ./...`), and
  (c) still passes the existing test suite exactly as the unchanged tree does. Note: the unchanged tree already has some always-failing tests; so first run the suite on the unchanged worktree and record which tests pass, then check the same set still passes with your change. Command (run in the worktree root): `export GOFLAGS=-mod=mod GOPROXY=off GOSUMDB=off GOTOOLCHAIN=local; go test -vet=off -count=1 ./pub/... ./streams/... ./astool/... 2>&1 | tail -40` (use `-json` or `-v` if you need per-test results; the sandbox has no network).
Prefer subtle changes that need something SPECIFIC to manifest - an unusual input, a particular multi-step sequence of operations, a fault/error at one particular call, a particular interleaving of concurrent requests, or two cooperating code sites that each look fine alone - NOT changes that ordinary use would expose at once. They should look like plausible developer mistakes or 'optimisations' (off-by-one, wrong branch, dropped unlock on an error path, reordered steps, comparison on the wrong field, skipped element, etc.).
""")
if earlier:
    print(f"""
IMPORTANT - this is a {ordinal} round. Earlier rounds already produced the following {len(earlier)} changes; yours must be DIFFERENT from all of them. Go through the property text clause by clause AND through the list of input classes in 'It is meant to hold for', and choose a clause / input class / configuration / history / code site that none of these exercises (for example: a configuration combination, an input kind named in the list but not used below, a multi-request history, a fault at a call not yet used, an interplay of two features, a helper function shared with another feature). Summaries of the earlier changes:""")
    for e in earlier:
        print(" - " + e.replace("\n", " "))
print(f"""
Note also: the repository HEAD already contains a number of recent small 'fix:' commits (see `git log`); do not simply revert one of them unless the reverted behaviour clearly breaks the property above and the suite still passes. Each demonstration must show an observable violation of the property text itself (not merely a behaviour difference).

NEVER use `git stash` (it is shared between all worktrees and other agents collide on it). To switch between patched/unpatched use `git diff > {out}/x.diff; git apply -R {out}/x.diff` and `git apply {out}/x.diff`. Do not read anything under /root/.claude or /verif.

For each mutation N (1, 2) write into {out}/:
  - patchN.diff : `git diff` of the change (must apply with `git apply` to a clean checkout of HEAD),
  - demoN_test.go : a self-contained demonstration - a Go test placed (when run) in the package it names in its first comment line, e.g. `// place in: pub/` - that FAILS with the change applied and PASSES on the unchanged tree. It may use the repo's own mocks (pub/mock_*_test.go are in package pub) or hand-written fakes.
  - metaN.json : {{"property": "{pid}", "summary": "...what was changed...", "needs": "...what specific input/sequence/fault/interleaving is needed to manifest...", "demo_cmd": "...exact command to run the demo from the worktree root...", "tests_checked": "...what you ran to confirm the suite still passes..."}}
Confirm (a)-(c) yourself by actually running things: demo fails with patch, demo passes without, suite unchanged. Leave the worktree clean (git checkout -- . and remove added files) when finished. Final answer: a short list of what you produced and any caveats.""")
